#!/venv/bin/python
"""Regenerates /verif/MANIFEST.json from the table below (keeps it valid)."""
import json, os
V = "/verif"
NA = {
"C01":"loads(dumps(m, E(cfg)), strict) is a pure function of (module, options): no stream, fault, schedule or history in it; a for-all over values x options is input generation, not simulation.",
"C02":"Same pipeline with the default loader; a pure function of (module, encoder) with nothing for a scheduler or fault injector to decide.",
"C03":"text -> tree is a pure function of the text; the claim is about spellings of well-formed input, not about faults, schedules or histories.",
"C04":"A metamorphic relation between two inputs (two layouts of one token list); re-laying-out text is input generation, not simulation.",
"C07":"dumps-after-loads idempotence is a pure function of the text and the encoder.",
"C12":"Conformance of one returned string: a pure function of (module, options).",
"C14":"pvl reads no clock, zone database or locale; every temporal value is a pure function of the literal, so there is no time to simulate.",
"C17":"Agreement of three classifiers on one string: a pure function of the string.",
"C18":"Result types as a function of (text, substitute classes): pure.",
"C19":"Differential equality of two loaders on one text: pure.",
}
CHECKS = {
"C05": dict(engine="E1-token-channel", design="4 (C05), 3.1, 3.2",
  technique="deterministic simulation with fault injection on the parser-lexer token channel and on stored text: seeded token-level fault plans (drop/dup/swap/replace/EOF/torn token) per generated label, per-label sweeps of EOF and deletion at every token, executed through the real lexer and through a SimLexer interposer on the public lexer_fn seam; oracle = independent token-kind recogniser",
  text="Seeded search over (label, layout, configuration, fault plan) with per-label exhaustive sweeps of single-token EOF/deletion; every damaged token sequence is judged by a recogniser that never calls pvl: ill-formed -> the load must raise LexerError/ParseError, well-formed -> a returned module must equal the denoted tree. Exploration: a clean batch is evidence over the ~150k (quick) loads it made.",
  note="Trusted: sim/refparse.py as the statement of well-formedness (it abstains where the specifications do not decide), the core vocabulary's expected values (sim/gen.py), white-space-separated re-rendering of damaged token lists."),
"C06": dict(engine="E1-token-channel", design="4 (C06), 2.4",
  technique="deterministic simulation with fault injection: truncation (EOF) at character offsets, character-level corruption from a PVL-significant alphabet, token-channel faults and channel EOF at every token via SimLexer, value loss, garbage after END, on generated and tests/data labels; bounded liveness decided by a deterministic line-event budget (sys.monitoring) and a channel re-delivery bound",
  text="Seeded search over damaged labels in the five parser configurations; invariant on every load: it ends within 4000 line events per input character and 5000 re-deliveries in a module, LexerError or ParseError. Exploration (~146k loads per quick run); hangs are decided by counting, so a stall replays exactly.",
  note="Trusted: the step budget as the definition of 'does not terminate' (40x the observed cost); CPython's sys.monitoring LINE events."),
"C08": dict(engine="E1-token-channel", design="4 (C08)",
  technique="deterministic simulation with fault injection on stored text: value-loss faults (all value tokens of an assignment removed) placed systematically per generated label (each assignment, adjacent pairs, first/last/all of each block) and by seeded subsets under seeded layouts with a position map; oracle = tolerant reading by the independent recogniser plus line numbers from the position map",
  text="Seeded search over labels x layouts with per-label systematic placement of the value-loss fault; the default loader must return the pre-fault tree with empty-string placeholders carrying the 1-based line of their '=' and errors == exactly those lines, and the strict PVL/ODL/PDS3 parsers must raise LexerError/ParseError. Exploration over ~90k loads per quick run.",
  note="Trusted: sim/refparse.py's tolerant rule (the one C08 states), the renderer's position map, linecount's documented definition of a line."),
"C15": dict(engine="E1-token-channel", design="4 (C15)",
  technique="deterministic simulation with fault injection on stored text: single-character corruption (insert/replace, boundary and random code points; thorough tier enumerates all 1,114,112 code points) at seeded positions of every syntactic position class; oracle = specification range table + LexerError position arithmetic + locality from the position map",
  text="Seeded search over (label, position class, position, code point, insert/replace); a code point outside the dialect's specification table before the END statement must give LexerError with e.doc == text and pos/lineno/colno consistent and local; the default loader must return the character unchanged inside strings. The thorough tier injects every code point at least once per strict grammar (fault alphabet enumerated; positions sampled). Run 0 compares char_allowed with the table for all code points x 4 grammars.",
  note="Trusted: the tables quoted in the property text; the locality bound start-of-token <= e.pos <= p+1."),
"C09": dict(engine="E2-io", design="5 (C09)",
  technique="deterministic simulation of the I/O boundary with fault injection: one stored object (label + separator + trailing bytes) loaded through all seven entry points in seeded order over SimRaw streams under the real BufferedReader/TextIOWrapper (seeded buffer/chunk sizes, short reads, non-seekable, pre-advanced, OSError at byte k) and real scratch files; counting SimLexer on the lexer_fn seam; dumps to paths and to SimRawW streams with short writes and ENOSPC",
  text="Seeded search over (label, separator, trailing bytes, entry point order, stream knobs and faults); every entry point must return the module of pvl.loads(label) (or raise the same exception type), request no token after END (counted on the token channel), stay within a step budget computed from the label length, and let an injected OSError propagate; dump must write exactly dumps() and report its length or surface the write error. Exploration (~45k loads+dumps per quick run).",
  note="Trusted: pvl.loads(label) on a fresh parser as the reference for the other entry points; CPython's io layer; assumptions about newline translation listed in the evidence. One open known finding (non-seekable text stream with undecodable tail)."),
"C10": dict(engine="E3-history", design="5 (C10), 3.3",
  technique="deterministic simulation: seeded operation histories with failing operations, stepped against a list-of-pairs reference model after every step; ddmin-shrunk explicit replay files",
  text="Seeded search over operation histories (60k quick / 2M thorough histories of up to 40 operations incl. failing calls) on all four container classes; every accessor of every live container is compared with an independent list-of-pairs model after every operation. Evidence, not proof: a clean batch covers the histories it ran.",
  note="Trusted: the list-of-pairs model in sim/listmodel.py as the reading of 'as documented'; CPython's list/dict. update(multi-dict) and slice-indexing of views are not generated (see evidence assumptions)."),
"C11": dict(engine="E3-history", design="5 (C11), 3.3",
  technique="deterministic simulation: seeded histories with copy operations (m.copy, copy.copy, deepcopy, pickle 0-5 = restart from serialised state) and mutations on either side afterwards, stepped against an aliasing-aware list-of-pairs model",
  text="Seeded search over histories in which containers are copied by each of the four mechanisms and originals, copies and nested containers keep being mutated; at the copy: equality both ways, class at every level, original unchanged, sharing of nested objects as the mechanism specifies; afterwards every tracked container is compared with its own model after every operation, so forbidden aliasing shows on the other side at the next mutation. Evidence over the histories run, not proof.",
  note="Trusted: the model's statement of which mechanisms share nested containers (shallow: share; deep/pickle: share nothing, preserve internal sharing); CPython copy/pickle."),
"C13": dict(engine="E3-history", design="5 (C13), 3.3",
  technique="deterministic simulation: seeded container histories with interleaved repeated dumps (four encoders + pvl.dumps defaults, seeded options, same/fresh encoder instances), argument compared with the reference model after every single encode call",
  text="Seeded search over modules built by arbitrary operation histories (duplicate keys at every level, groups valid and invalid for PDS3) with dumps called 2-4 times in a row and again after further mutations; calls in a row must agree (same text or same exception type) and the argument must equal the model after each call, the only accepted change being a top-level PVLGroup replaced by a PVLObject of identical content at the identical position under PDS3 conversion. Evidence over the histories run, not proof.",
  note="Trusted: the C10 list-of-pairs model; the modelling of the permitted PDS3 side effect (see evidence assumptions)."),
"C16": dict(engine="E3-history", design="5 (C16)",
  technique="deterministic simulation: seeded call histories on one long-lived parser/encoder/decoder instance (incl. the shared pvl_validate/pvl_translate instances) with failing calls and in-flight aborts injected through the instance's token channel (SimLexer: EOF or SimAbort at token k), each call compared with a fresh instance and, sampled, with a cold child forked from a pristine interpreter",
  text="Seeded search over histories of 2-12 calls (well-formed, value-loss, token-damaged and tests/data labels; encodable and unencodable modules; decodable and undecodable texts; crash-and-reuse via aborted token streams) on one instance; every call's module+errors or exception type+message+position must equal a fresh instance's, 5% also a cold process's. Exploration over the histories run.",
  note="Trusted: a fresh instance of the documented configuration as the reference; result descriptors (canonical module, errors attribute, exception type/message/position)."),
"C20": dict(engine="E2-io", design="5 (C20)",
  technique="deterministic simulation of the command-line tools in-process: seeded scratch directories of good, damaged, value-loss, non-encodable and binary-tailed files and seeded sequences of pvl_validate.main / pvl_translate.main invocations sharing the tools' module-level instances, simulated STDIN (seekable or pipe) and STDOUT; oracle = the library on fresh instances",
  text="Seeded search over (file set, damage, invocation sequence, formats, stream kinds); translate output must equal pvl.dumps(pvl.load(input), fresh encoder) byte for byte (JSON: parse to the nested pairs) and fail exactly when that call fails; every validate cell must equal what a fresh parser/encoder of that dialect does and every file must have a row. Exploration (~50k tool and reference calls per quick run).",
  note="Trusted: fresh instances built from the documented configuration of each row/format; report parsing of the two documented layouts; in-process execution of main(argv)."),
}
ENGINES = [
 {"name":"E1-token-channel","path":"sim/chan.py, sim/gen.py, sim/refparse.py","serves_properties":["C05","C06","C08","C15"],"kind_free_text":"token-channel interposer (lexer_fn seam) and stored-text damage with an independent token-kind recogniser as oracle"},
 {"name":"E2-io","path":"sim/iosim.py","serves_properties":["C09","C20"],"kind_free_text":"simulated raw streams under real io.BufferedReader/TextIOWrapper, scratch files, simulated stdin/stdout"},
 {"name":"E3-history","path":"sim/listmodel.py, sim/histgen.py","serves_properties":["C10","C11","C13","C16"],"kind_free_text":"seeded operation histories stepped against reference models"},
]
ALL = ["C%02d" % i for i in range(1, 21)]
PLANNED = "check not built yet (planned, see DESIGN.md)"
m = {"version":1,
 "setup_cmd":"/venv/bin/python -B /verif/sim/run.py setup",
 "hooks":{"guard":"PVL_VERIF_HOOKS","enable":"no hooks are needed: every seam (lexer_fn, file-object arguments, main(argv)) is public; checks import pvl from /repo's working tree (nothing to build)","baseline_off_cmd":"cd /repo && /venv/bin/python -m pytest -ra -q -p no:cacheprovider --timeout=900 --continue-on-collection-errors","source_commits":[],"add_only":True},
 "engines":ENGINES,
 "checks":[],
 "notes":"Deterministic simulation with fault injection; see DESIGN.md. Exit 0 held / 1 VIOLATION / 2 harness error. Known findings: known_findings.json.",
 "not_applicable":[]}
for pid in ALL:
    if pid in CHECKS:
        c = CHECKS[pid]
        m["checks"].append({"property_id":pid,
          "quick_cmd":"/venv/bin/python -B /verif/sim/run.py check %s --tier quick" % pid,
          "thorough_cmd":"/venv/bin/python -B /verif/sim/run.py check %s --tier thorough" % pid,
          "evidence_file":"/verif/evidence/%s.json" % pid,
          "replay_cmd_template":"/venv/bin/python -B /verif/sim/run.py replay {path}",
          "engine":c["engine"],
          "level_claimed":{"category":"exploration","text":c["text"],"design_ref":c["design"]},
          "level_note":c["note"],"technique":c["technique"]})
    else:
        m["not_applicable"].append({"property_id":pid,"reason":NA.get(pid, PLANNED)})
json.dump(m, open(os.path.join(V,"MANIFEST.json"),"w"), indent=1)
print("checks:", [c["property_id"] for c in m["checks"]])
