#!/venv/bin/python
"""Prints the markdown tables of DESIGN.md section 13 from
/verif/mutants/{index,results}.json and /verif/seeded/*/meta.json."""
import glob, json, os
V = "/verif"
idx = json.load(open(os.path.join(V, "mutants", "index.json")))
res = {}
rp = os.path.join(V, "mutants", "results.json")
if os.path.exists(rp):
    for r in json.load(open(rp)):
        res[(r["patch"], r["check"])] = r
print("| reverse of fix | what it re-introduces | check | result (quick-size batch) |")
print("|---|---|---|---|")
for name in sorted(idx):
    e = idx[name]
    for c in e["expect"]:
        r = res.get((name, c))
        what = e.get("what", "").split(" ", 3)[-1][:110]
        print("| %s | %s | %s | %s |" % (name[7:-6], what, c, "caught" if r and r["caught"] else ("MISSED" if r else "not run")))
print()
print("| seeded change | what it does (one line) | checks as they stood when it arrived | own check now | other checks run |")
print("|---|---|---|---|---|")


def natural(d):
    b = os.path.basename(d)
    p, n = b.split("-")
    return (p, int(n))


for d in sorted(glob.glob(os.path.join(V, "seeded", "*")), key=natural):
    mp = os.path.join(d, "meta.json")
    if not os.path.exists(mp):
        continue
    m = json.load(open(mp))
    if "breaks_property" not in m:
        continue        # not evaluated with the current checks yet
    own = m["breaks_property"]
    notes = m.get("needs_to_manifest", "")
    first = ""
    for ln in notes.split("\n"):
        ln = ln.strip(" #*-")
        if len(ln) > 25:
            first = ln[:120]
            break
    o = m["checks"].get(own, {})
    others = ", ".join("%s: %s" % (c, "caught" if v["caught"] else "missed") for c, v in m["checks"].items() if c != own)
    fe = m.get("first_evaluation", {}).get("checks", {}).get(own)
    if fe is None:
        was = "see text" if natural(d)[1] <= 4 else "not recorded"
    elif fe.get("exit") == 2:
        was = "harness error"
    else:
        was = "caught" if fe.get("caught") else "missed"
    print("| %s | %s | %s | %s | %s |" % (m["id"], first.replace("|", "/"), was, "caught" if o.get("caught") else "MISSED", others or "-"))
