#!/venv/bin/python
"""Run the pinned test suite of /repo and compare with BASELINE.json's
stable_pass list.  Exit 0 iff every stable_pass test still passes."""
import json, subprocess, sys, tempfile, os
import xml.etree.ElementTree as ET
repo = sys.argv[1] if len(sys.argv) > 1 else "/repo"
b = json.load(open("/root/.vp/BASELINE.json"))
fd, xml = tempfile.mkstemp(suffix=".xml"); os.close(fd)
subprocess.run(["/venv/bin/python", "-m", "pytest", "-q", "-p", "no:cacheprovider",
                "--timeout=900", "--continue-on-collection-errors",
                "--junitxml=" + xml], cwd=repo, stdout=subprocess.DEVNULL,
               stderr=subprocess.DEVNULL)
passed = set()
for tc in ET.parse(xml).getroot().iter("testcase"):
    if not any(c.tag in ("failure", "error", "skipped") for c in tc):
        passed.add(tc.get("classname") + "::" + tc.get("name"))
os.unlink(xml)
missing = [t for t in b["stable_pass"] if t not in passed]
print("stable_pass=%d still_passing=%d missing=%d" % (len(b["stable_pass"]), len(b["stable_pass"]) - len(missing), len(missing)))
for t in missing: print("  LOST:", t)
sys.exit(1 if missing else 0)
