#!/venv/bin/python
"""Confirm and evaluate one sub-agent change.

  try_seeded.py <worktree> <deliver-dir> <seeded-id> <check ids...>

In the scratch worktree: demo passes on pristine code, fails with the patch;
the stable tests still pass with the patch; then the named checks are pointed
at the patched worktree (VERIF_REPO).  Writes /verif/seeded/<id>/ (patch.diff,
demo.py, notes.md, meta.json).
"""
import json, os, shutil, subprocess, sys, time
wt, deliver, sid = sys.argv[1:4]
checks = sys.argv[4:]
V = os.environ.get("VERIF_HOME", "/verif")
PY = "/venv/bin/python"
def sh(cmd, **kw):
    return subprocess.run(cmd, stdout=subprocess.PIPE, stderr=subprocess.STDOUT, text=True, **kw)
patch = os.path.join(deliver, "patch.diff")
demo = os.path.join(deliver, "demo.py")
sh(["git", "-C", wt, "checkout", "--", "pvl"])
shutil.copy(demo, os.path.join(wt, "_demo.py"))
r0 = sh([PY, "_demo.py"], cwd=wt)
base = sh(["git", "-C", wt, "rev-parse", "--short", "HEAD"]).stdout.strip()
ap = sh(["git", "-C", wt, "apply", patch])
if ap.returncode:
    print("PATCH DOES NOT APPLY to %s" % base, ap.stdout)
    dst = os.path.join(V, "seeded", sid, "meta.json")
    if os.path.exists(dst):
        m = json.load(open(dst))
        m["superseded"] = ("the patch no longer applies to /repo at %s (a later fix: commit touched the same lines); "
                           "the results below are from the tree it was written for" % base)
        json.dump(m, open(dst, "w"), indent=1)
    os.remove(os.path.join(wt, "_demo.py"))
    sys.exit(2)
r1 = sh([PY, "_demo.py"], cwd=wt)
bl = sh([PY, os.path.join(V, "tools", "baseline_check.py"), wt])
meta = {"id": sid, "breaks_property": sid.split("-")[0], "evaluated_against_repo_commit": base,
        "demo_on_pristine_exit": r0.returncode, "demo_with_change_exit": r1.returncode,
        "stable_tests_with_change": bl.stdout.strip().split("\n")[0],
        "files_touched": sorted(set(l[6:] for l in open(patch) if l.startswith("+++ b/"))),
        "checks": {}}
print("demo pristine rc=%d, with change rc=%d; tests: %s" % (r0.returncode, r1.returncode, meta["stable_tests_with_change"]))
ok = r0.returncode == 0 and r1.returncode != 0 and bl.returncode == 0
meta["confirmed"] = ok
if ok:
    for c in checks:
        env = dict(os.environ, VERIF_REPO=wt, VERIF_NO_EVIDENCE="1", VERIF_REPLAY_DIR="/tmp/seeded-replays")
        t0 = time.time()
        p = sh([PY, "-B", os.path.join(V, "sim", "run.py"), "check", c, "--tier", "quick"], env=env)
        caught = p.returncode == 1 and ("VIOLATION property=%s" % c) in p.stdout
        first = [l for l in p.stdout.split("\n") if l.strip().startswith("class=")][:2]
        meta["checks"][c] = {"caught": caught, "exit": p.returncode, "wall_s": round(time.time() - t0),
                             "first_violations": [l.strip()[:300] for l in first]}
        print("  check %s: %s (rc=%d, %.0fs) %s" % (c, "CAUGHT" if caught else "missed", p.returncode, time.time() - t0, first[:1]))
sh(["git", "-C", wt, "checkout", "--", "pvl"])
os.remove(os.path.join(wt, "_demo.py"))
dst = os.path.join(V, "seeded", sid)
os.makedirs(dst, exist_ok=True)
shutil.copy(patch, os.path.join(dst, "patch.diff"))
shutil.copy(demo, os.path.join(dst, "demo.py"))
if os.path.exists(os.path.join(deliver, "notes.md")):
    shutil.copy(os.path.join(deliver, "notes.md"), os.path.join(dst, "notes.md"))
    meta["needs_to_manifest"] = open(os.path.join(deliver, "notes.md")).read()[:1500]
meta["what_was_run"] = "tools/try_seeded.py: demo on pristine and patched scratch worktree, tools/baseline_check.py on the patched worktree, quick checks with VERIF_REPO=<patched worktree>"
mp = os.path.join(dst, "meta.json")
if os.path.exists(mp):
    try:
        oldm = json.load(open(mp))
        for k in ("first_evaluation", "note", "superseded"):
            if k in oldm and k not in meta:
                meta[k] = oldm[k]
    except Exception:
        pass
json.dump(meta, open(mp, "w"), indent=1)
