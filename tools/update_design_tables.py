#!/venv/bin/python
"""Replaces the two generated tables of DESIGN.md section 13 with the
current output of tools/mk_sensitivity_table.py."""
import subprocess
out = subprocess.run(["/venv/bin/python", "/verif/tools/mk_sensitivity_table.py"],
                     capture_output=True, text=True).stdout
t1, t2 = out.strip().split("\n\n")
p = "/verif/DESIGN.md"
lines = open(p).read().split("\n")
for head, table in (("| reverse of fix |", t1), ("| seeded change |", t2)):
    i = next(k for k, l in enumerate(lines) if l.startswith(head))
    j = i
    while j < len(lines) and lines[j].startswith("|"):
        j += 1
    lines[i:j] = table.split("\n")
open(p, "w").write("\n".join(lines))
print("tables updated: %d + %d rows" % (len(t1.split("\n")) - 2, len(t2.split("\n")) - 2))
