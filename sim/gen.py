"""Abstract documents, vocabularies, renderer and position map (DESIGN 3.1).

The simulator owns the label: it generates an abstract document, renders it
to a tagged token list and to text under a seeded layout, and therefore
knows - independently of pvl - what the text denotes, where every token
sits, and what a damaged token list does or does not denote.

Nothing in this module imports pvl.
"""

# token kinds
NAME, NUM, STR, DATE, KWVAL = "NAME", "NUM", "STR", "DATE", "KWVAL"
BEGIN_G, BEGIN_O, END_G, END_O, END = "BEGIN_G", "BEGIN_O", "END_G", \
    "END_O", "END"
EQ, COMMA, LP, RP, LB, RB, SEMI, UNITS, PARTIAL = "=", ",", "(", ")", "{", \
    "}", ";", "UNITS", "PARTIAL"
# a units expression with a units delimiter inside it, e.g. "<m<s>": what an
# unterminated "<km" followed by a later "<m>" lexes to
BADUNITS = "BADUNITS"
# a token made of a character that Python counts as white space but the
# grammar does not (allowed in the dialect, so it reaches the parser)
ODDSPACE = "ODDSPACE"

KEYWORDS = {"end", "group", "object", "begin_group", "begin_object",
            "end_group", "end_object", "null", "true", "false", "inf",
            "nan", "infinity"}

LETTERS = "ABCDEFGHIJKLMNOPQRSTUVWXYZabcdefghijklmnopqrstuvwxyz"
DIGITS = "0123456789"


class Tok:
    """A token of the rendering: kind, text, role in the grammar, the
    nesting depth it sits at and (after rendering) its span and line."""
    __slots__ = ("kind", "text", "role", "depth", "start", "end", "line",
                 "stmt", "val")

    def __init__(self, kind, text, role="", depth=0, stmt=None, val=None):
        self.kind = kind
        self.text = text
        self.role = role
        self.depth = depth
        self.stmt = stmt
        self.val = val          # canonical value of a simple-value token
        self.start = self.end = self.line = None

    def clone(self, **kw):
        t = Tok(self.kind, self.text, self.role, self.depth, self.stmt,
                self.val)
        for k, v in kw.items():
            setattr(t, k, v)
        return t

    def __repr__(self):
        return "%s:%s" % (self.kind, self.text)


# ---- abstract values: (tag, ...) tuples; expected canonical forms ---------

def expected(val):
    """Canonical form (same format as core.canon) a value must decode to,
    fixed by the PVL/ODL specifications for the core vocabulary."""
    tag = val[0]
    if tag == "ident":
        return ("str", val[1])
    if tag == "int":
        return ("int", val[1])
    if tag == "real":
        return ("float", repr(float(val[1])))
    if tag == "qstr":
        return ("str", val[1])
    if tag == "based":
        return ("int", int(val[2], val[1]))
    if tag == "date":
        return ("date", val[2])
    if tag == "time":
        return ("time", val[2])
    if tag == "datetime":
        return ("datetime", val[2])
    if tag == "kw":
        return {"NULL": ("none",), "TRUE": ("bool", True),
                "FALSE": ("bool", False)}[val[1]]
    if tag == "seq":
        return ("list", tuple(expected(v) for v in val[1]))
    if tag == "set":
        return ("set", tuple(sorted((expected(v) for v in val[1]),
                                    key=repr)))
    if tag == "units":
        return ("Quantity", expected(val[1]), ("str", val[2].strip()))
    if tag == "raw":
        return ("raw", val[2])      # extended vocabulary: no oracle value
    raise ValueError(val)


class DocGen:
    """Seeded generator of abstract documents over the core vocabulary."""

    def __init__(self, rng, max_stmts=12, max_depth=3, small=False,
                 extended=False):
        self.rng = rng
        self.max_stmts = max_stmts
        self.max_depth = max_depth
        self.small = small
        # extended vocabulary: spellings whose meaning is dialect dependent
        # or that pvl may legitimately refuse.  Only for checks whose oracle
        # needs no expected tree (C06) or takes pvl itself as the reference
        # (C09, C16, C20).
        self.extended = extended
        self.names_pool = []

    EXT_RAW = [
        (NUM, "+5"), (NUM, "+1.5E+3"), (NUM, "-16#FF#"), (NUM, "16#-FF#"),
        (NUM, "+2#101#"), (NUM, "3#12#"), (NUM, "1.e5"), (NUM, ".5"),
        (DATE, "12:00:00+01"), (DATE, "2001-01-01T12:00:00-05:30"),
        (DATE, "12:30"), (DATE, "2001-01-01T01:02:03"), (DATE, "23:59:60"),
        (DATE, "2001-366"), (DATE, "2001-01-01T23:59:60.5Z"),
        (DATE, "12:00:00+0130"), (DATE, "2001-01-01T12:00:00-0530"),
        (DATE, "2001-001T01:10:39+7"), (DATE, "12:00:00-12"),
        (DATE, "01:02:03.5+0000"), (DATE, "2001-01-01T12:00:00.123Z"),
        (DATE, "2001-01-01T24:00:00"), (DATE, "2001-02-30"),
        (DATE, "12:00:00+1360"), (DATE, "2001-01-01T12:00+01"),
        (STR, '"line one\n   line two"'), (STR, '"dash-\n     continued"'),
        (STR, '"dash-\r\n     continued"'), (STR, '"dash-\f  continued"'),
        (STR, '"first line\nEND\nlast line"'), (STR, "'a\r\n  End \r\nb'"),
        (NAME, "abc-\r\n   def"), (NAME, "abc-\n   def"),
        (STR, "'tab\there'"), (STR, '"caf\u00e9 \u20ac"'),
        (STR, '"  padded  "'), (NAME, "A:B"), (NAME, "a+b"), (NAME, "N/A"),
        (NAME, "x.y"), (NAME, "^PTR"), (NAME, "inf"), (NAME, "NaN"),
        (NAME, "1_000"), (NAME, "*/"), (NAME, "x/*y"), (NAME, "#3"),
    ]

    def ext_scalar(self):
        kind, text = self.rng.choice(self.EXT_RAW)
        return ("raw", kind, text)

    def ident(self, maxlen=12):
        r = self.rng
        while True:
            n = r.choice([1, 2, 3, 3, 4, 6, 9, maxlen])
            if n == 1:
                s = r.choice(LETTERS)
            else:
                s = r.choice(LETTERS) + "".join(
                    r.choice(LETTERS + DIGITS + "_") for _ in range(n - 2)
                ) + r.choice(LETTERS + DIGITS)
            if s.lower() not in KEYWORDS and "__" not in s:
                return s

    def name(self):
        r = self.rng
        # collisions are interesting: reuse a name now and then
        if self.names_pool and r.random() < 0.2:
            return r.choice(self.names_pool)
        n = self.ident()
        self.names_pool.append(n)
        return n

    def number(self):
        r = self.rng
        x = r.random()
        if x < 0.45:
            n = r.choice([0, 1, 7, 42, 255, 1000, 65535, 123456789])
            if r.random() < 0.3:
                n = -n
            return ("int", n)
        if x < 0.8:
            m = r.choice(["0.5", "1.0", "3.14159", "12.75", "100.001"])
            if r.random() < 0.3:
                m = "-" + m
            if r.random() < 0.3:
                m += r.choice(["E3", "e2", "E-2", "E10", "e-05"])
            return ("real", m)
        radix = r.choice([2, 8, 16])
        digits = {2: ["0", "1", "1010", "11111111"],
                  8: ["7", "17", "777", "0123"],
                  16: ["F", "ff", "1A2b", "DEADBEEF", "0"]}[radix]
        return ("based", radix, r.choice(digits))

    STR_CHARS = LETTERS + DIGITS + "=(){},;<>#&*/_.:+-!?%[]|~@^"

    def qstring(self):
        r = self.rng
        n = r.choice([0, 1, 3, 5, 8, 14, 25])
        words = []
        cur = ""
        for _ in range(n):
            if cur and r.random() < 0.2:
                words.append(cur)
                cur = ""
            else:
                cur += r.choice(self.STR_CHARS)
        if cur:
            words.append(cur)
        s = " ".join(words)
        # fold-stable in every dialect: no "-" right before a space is fine
        # (folding only removes "-" + line end), no comment-looking content
        # restrictions are needed inside quotes.
        q = r.choice(['"', "'"])
        return ("qstr", s, q)

    def temporal(self):
        r = self.rng
        y, mo, d = r.choice([(2001, 1, 31), (1999, 12, 1), (2020, 2, 29),
                             (1, 1, 1), (9999, 12, 31)])
        doy = r.choice([1, 31, 365])
        h, mi, s = r.choice([(0, 0, 0), (12, 30, 15), (23, 59, 59)])
        x = r.random()
        import datetime as dt
        if x < 0.3:
            if r.random() < 0.6:
                return ("date", "%04d-%02d-%02d" % (y, mo, d),
                        dt.date(y, mo, d).isoformat())
            dd = dt.date(y, 1, 1) + dt.timedelta(days=doy - 1)
            return ("date", "%04d-%03d" % (y, doy), dd.isoformat())
        frac = r.choice(["", "", ".5", ".123"])
        us = {"": 0, ".5": 500000, ".123": 123000}[frac]
        if x < 0.5:
            t = dt.time(h, mi, s, us, tzinfo=dt.timezone.utc)
            return ("time", "%02d:%02d:%02d%sZ" % (h, mi, s, frac),
                    t.isoformat())
        v = dt.datetime(y, mo, d, h, mi, s, us, tzinfo=dt.timezone.utc)
        return ("datetime", "%04d-%02d-%02dT%02d:%02d:%02d%sZ" %
                (y, mo, d, h, mi, s, frac), v.isoformat())

    def keyword(self):
        r = self.rng
        k = r.choice(["NULL", "TRUE", "FALSE"])
        sp = r.choice([k, k.lower(), k.capitalize(), k[0] + k[1:].lower()])
        return ("kw", k, sp)

    def scalar(self, hashable_only=False):
        r = self.rng
        if self.extended and r.random() < 0.2:
            v = self.ext_scalar()
            if r.random() < 0.15:
                return ("units", v, r.choice(["m", "km/s", "a b", "m**2"]))
            return v
        x = r.random()
        if x < 0.25:
            return ("ident", self.ident())
        if x < 0.55:
            v = self.number()
            if r.random() < 0.2:
                return ("units", v, r.choice(["m", "km/s", " deg ", "W/m**2",
                                              "m s"]))
            return v
        if x < 0.75:
            return self.qstring()
        if x < 0.87:
            return self.temporal()
        return self.keyword()

    def value(self, depth=0):
        r = self.rng
        x = r.random()
        if depth < 2 and x < 0.18:
            n = r.choice([0, 1, 2, 3, 5])
            return ("seq", [self.value(depth + 1) for _ in range(n)])
        if self.extended and depth < 2 and 0.28 <= x < 0.36:
            # sets holding sequences / sets, units on collections
            inner = ("set", [self.value(depth + 1) for _ in
                             range(r.choice([0, 1, 2]))])
            if r.random() < 0.3:
                return ("units", inner, "m")
            return inner
        if depth < 1 and x < 0.28:
            n = r.choice([0, 1, 2, 3])
            elems, seen = [], set()
            for _ in range(n):
                e = self.scalar()
                key = repr(expected(e))
                # Python sets identify 1, 1.0 and True (and 0, 0.0, False)
                x = expected(e)
                if x[0] in ("int", "bool"):
                    key = "num:%r" % float(x[1])
                elif x[0] == "float":
                    key = "num:%r" % float(x[1])
                if key not in seen:
                    seen.add(key)
                    elems.append(e)
            return ("set", elems)
        return self.scalar()

    def statements(self, n, depth):
        r = self.rng
        out = []
        for _ in range(n):
            if depth < self.max_depth and r.random() < (0.25 if not
                                                        self.small else 0.15):
                kind = r.choice(["group", "object"])
                body = self.statements(r.choice(
                    [0, 1, 1, 2, 3] if self.extended else [1, 1, 2, 3]),
                    depth + 1)
                out.append(("block", kind, self.name(), body))
            else:
                out.append(("assign", self.name(), self.value()))
        return out

    def document(self):
        n = self.rng.randint(1, self.max_stmts)
        return self.statements(n, 0)


def expected_tree(stmts, cls="PVLModule"):
    items = []
    for s in stmts:
        if s[0] == "assign":
            items.append((s[1], expected(s[2])))
        else:
            items.append((s[2], expected_tree(
                s[3], "PVLGroup" if s[1] == "group" else "PVLObject")))
    return (cls, tuple(items))


# ---- rendering to tokens ---------------------------------------------------

class Style:
    """Seeded spelling decisions that change tokens (not white space)."""

    def __init__(self, rng, config):
        self.rng = rng
        self.config = config
        self.begin_prefix = rng.random() < (0.4 if config != "ISIS" else 0.1)
        self.kwcase = rng.choice(["upper", "upper", "lower", "title"])
        self.end_name = rng.random() < 0.5
        self.semis = rng.random() < 0.35
        self.end_present = rng.random() < 0.8

    def kw(self, w):
        if self.kwcase == "upper":
            return w.upper()
        if self.kwcase == "lower":
            return w.lower()
        return "_".join(p.capitalize() for p in w.split("_"))


def value_tokens(val, depth, stmt, role="value"):
    tag = val[0]
    if tag == "ident":
        return [Tok(NAME, val[1], role, depth, stmt, expected(val))]
    if tag == "int":
        return [Tok(NUM, str(val[1]), role, depth, stmt, expected(val))]
    if tag == "real":
        return [Tok(NUM, val[1], role, depth, stmt, expected(val))]
    if tag == "based":
        return [Tok(NUM, "%d#%s#" % (val[1], val[2]), role, depth, stmt,
                    expected(val))]
    if tag == "qstr":
        return [Tok(STR, val[2] + val[1] + val[2], role, depth, stmt,
                    expected(val))]
    if tag in ("date", "time", "datetime"):
        return [Tok(DATE, val[1], role, depth, stmt, expected(val))]
    if tag == "kw":
        return [Tok(KWVAL, val[2], role, depth, stmt, expected(val))]
    if tag == "raw":
        return [Tok(val[1], val[2], role, depth, stmt, ("raw", val[2]))]
    if tag in ("seq", "set"):
        o, c = (LP, RP) if tag == "seq" else (LB, RB)
        out = [Tok(o, o, "open", depth, stmt)]
        for i, v in enumerate(val[1]):
            if i:
                out.append(Tok(COMMA, ",", "comma", depth, stmt))
            out.extend(value_tokens(v, depth, stmt, "element"))
        out.append(Tok(c, c, "closer", depth, stmt))
        return out
    if tag == "units":
        return value_tokens(val[1], depth, stmt, role) + [
            Tok(UNITS, "<" + val[2] + ">", "units", depth, stmt)]
    raise ValueError(val)


def doc_tokens(stmts, style, depth=0, counter=None):
    """Tagged token list of a document (without the END statement)."""
    counter = counter if counter is not None else [0]
    out = []
    for s in stmts:
        counter[0] += 1
        sid = counter[0]
        if s[0] == "assign":
            out.append(Tok(NAME, s[1], "name", depth, sid, ("str", s[1])))
            out.append(Tok(EQ, "=", "eq", depth, sid))
            out.extend(value_tokens(s[2], depth, sid))
            if style.semis and style.rng.random() < 0.8:
                out.append(Tok(SEMI, ";", "delim", depth, sid))
        else:
            g = s[1] == "group"
            word = ("BEGIN_" if style.begin_prefix else "") + (
                "GROUP" if g else "OBJECT")
            out.append(Tok(BEGIN_G if g else BEGIN_O, style.kw(word),
                           "begin", depth, sid))
            out.append(Tok(EQ, "=", "begin-eq", depth, sid))
            out.append(Tok(NAME, s[2], "block-name", depth, sid,
                           ("str", s[2])))
            if style.semis and style.rng.random() < 0.5:
                out.append(Tok(SEMI, ";", "delim", depth, sid))
            out.extend(doc_tokens(s[3], style, depth + 1, counter))
            out.append(Tok(END_G if g else END_O,
                           style.kw("END_GROUP" if g else "END_OBJECT"),
                           "end-kw", depth, sid))
            if style.end_name and style.rng.random() < 0.8:
                out.append(Tok(EQ, "=", "end-eq", depth, sid))
                out.append(Tok(NAME, s[2], "end-name", depth, sid,
                               ("str", s[2])))
            if style.semis and style.rng.random() < 0.5:
                out.append(Tok(SEMI, ";", "delim", depth, sid))
    return out


def full_tokens(stmts, style):
    toks = doc_tokens(stmts, style)
    if style.end_present:
        toks.append(Tok(END, style.kw("END"), "END", 0, 0))
        if style.semis and style.rng.random() < 0.3:
            toks.append(Tok(SEMI, ";", "delim", 0, 0))
    return toks


# ---- layout: tokens -> text with a position map ----------------------------

class Layout:
    def __init__(self, rng, config, always_separate=False, comments=True,
                 line_end=None):
        self.rng = rng
        self.config = config
        self.always_separate = always_separate
        self.nl = line_end or rng.choice(["\n", "\n", "\r\n"])
        self.comments = comments and rng.random() < 0.5
        self.hash_comments = (self.comments and
                              config in ("ISIS", "default") and
                              rng.random() < 0.5)
        self.indent = rng.choice([0, 2, 4])
        self.tight = (not always_separate) and rng.random() < 0.3
        self.oneline = rng.random() < 0.1

    def ws(self, newline_ok=True):
        r = self.rng
        x = r.random()
        if x < 0.6:
            s = " "
        elif x < 0.75:
            s = "  "
        elif x < 0.85:
            s = "\t"
        elif newline_ok and x < 0.95:
            s = self.nl + " " * r.choice([0, 2, 8])
        elif x < 0.97:
            s = " \f" if r.random() < 0.5 else " \v "
        else:
            s = "   "
        if self.comments and r.random() < 0.08:
            c = r.choice(["/* c */", "/* = */", "/* END */", "/**/",
                          "/* # not a line comment */",
                          "/* old:\nEND\n*/" if newline_ok else "/* END */",
                          "/* a\n b */" if newline_ok else "/* a b */"])
            s = s + c + " "
        return s

    # '#' comments whose line ends in a dash: only the check that knows the
    # open finding about them (C05) switches these on
    dash_hash = False

    def render(self, toks):
        """Returns text; sets start/end/line on each token."""
        r = self.rng
        parts = []
        pos = 0
        text_len = 0

        def emit(s):
            nonlocal text_len
            parts.append(s)
            text_len += len(s)

        if r.random() < 0.2:
            emit(self.ws())
        prev = None
        for t in toks:
            if prev is not None:
                sep = self.separator(prev, t)
                emit(sep)
            t.start = text_len
            emit(t.text)
            t.end = text_len
            prev = t
        tail = r.random()
        if tail < 0.6:
            emit(self.nl)
        elif tail < 0.8:
            emit(self.ws())
        text = "".join(parts)
        for t in toks:
            t.line = text.count("\n", 0, t.start) + 1
        return text

    def separator(self, a, b):
        r = self.rng
        # statement boundary: a new line (usually)
        new_stmt = b.role in ("name", "begin", "end-kw", "END") or (
            b.kind in (NAME, BEGIN_G, BEGIN_O, END_G, END_O, END) and
            a.role in ("delim",) and b.role not in ("element", "value"))
        if new_stmt and not self.oneline:
            s = self.nl
            if r.random() < 0.15:
                s += self.nl
            if self.hash_comments and r.random() < 0.1:
                s = r.choice([" # note = 1", " # see /* there",
                              " # a */ b", " #"] + (
                                  [" # ----", " # part 1 -"]
                                  if Layout.dash_hash else [])) + s
            elif self.comments and r.random() < 0.1:
                s += "/* next */" + self.nl
            return s + " " * (self.indent * b.depth)
        punct = {EQ, COMMA, LP, RP, LB, RB, SEMI}
        can_touch = (a.kind in punct or b.kind in punct)
        if a.kind == EQ and b.kind == NUM and b.text[0] in "+-":
            can_touch = True
        if b.kind == UNITS:
            can_touch = True
        if self.always_separate or not can_touch:
            return self.ws()
        if self.tight or r.random() < 0.25:
            return ""
        if a.kind == COMMA or b.kind == EQ or a.kind == EQ:
            return self.ws(newline_ok=(r.random() < 0.2))
        return r.choice(["", " "])


def render_doc(rng, config, stmts=None, max_stmts=12, small=False,
               always_separate=False, extended=False):
    """Convenience: generate + style + layout.  Returns
    (stmts, tokens, text, style)."""
    if stmts is None:
        stmts = DocGen(rng, max_stmts=max_stmts, small=small,
                       extended=extended).document()
    style = Style(rng, config)
    toks = full_tokens(stmts, style)
    text = Layout(rng, config, always_separate).render(toks)
    return stmts, toks, text, style


def render_tokens(rng, config, toks, always_separate=True):
    """Render an arbitrary (possibly damaged) token list."""
    toks = [t.clone() for t in toks]
    text = Layout(rng, config, always_separate=always_separate).render(toks)
    return toks, text
