"""C20 - command-line tools are faithful front-ends of the library.

Engine E2.  One run = a simulated directory of 1-6 files (generated labels,
tests/data labels, value-loss labels, token-damaged labels, labels that
load but do not encode in some dialect, a label followed by binary) and a
seeded sequence of 1-5 invocations in the same interpreter - the
module-level parser/encoder instances are reloaded once at run start and
then kept, which is the point: pvl_validate.main([-v...] files...) and
pvl_translate.main(["-of", F, infile?, outfile?]) with infile a path or a
simulated STDIN (seekable or pipe-like) and outfile a path or a simulated
STDOUT.

Oracle: fresh instances of the library built from the documented
configuration of each row / format.
"""
import gc
import importlib
import io
import json
import os
import sys

import pvl

from .. import core, gen, dialects, iosim, e1, chan
from ..core import Property, RunOut, Violation

FORMATS = ["PDS3", "ODL", "ISIS", "PVL", "JSON"]
ROWS = ["PDS3", "ODL", "PVL", "ISIS", "Omni"]
ROWCFG = {"PDS3": "PDS3", "ODL": "ODL", "PVL": "PVL", "ISIS": "ISIS",
          "Omni": "default"}


def fresh_encoder(fmt):
    return {"PDS3": pvl.encoder.PDSLabelEncoder, "ODL": pvl.encoder.ODLEncoder,
            "ISIS": pvl.encoder.ISISEncoder,
            "PVL": pvl.encoder.PVLEncoder}[fmt]()


def text_of(data: bytes) -> str:
    """What pvl.load makes of stored bytes: the decodable prefix."""
    try:
        return data.decode()
    except UnicodeDecodeError as e:
        return data[:e.start].decode()


def as_pairs(v):
    """Nested (name, value) pairs as JSON would carry them."""
    if isinstance(v, pvl.collections.OrderedMultiDict):
        return [[k, as_pairs(x)] for k, x in list(v)]
    if isinstance(v, (list, tuple)):
        return [as_pairs(x) for x in v]
    return v


class ProcessStdout(io.StringIO):
    """The standard output of one simulated process: the same object for
    every invocation in it, as sys.stdout is.  What was written stays
    readable for the harness even if somebody closes it."""
    saved = ""

    def close(self):
        if not self.closed:
            self.saved = self.getvalue()
        super().close()

    def text(self):
        return self.saved if self.closed else self.getvalue()


class C20(Property):
    ID = "C20"
    RUNS = {"quick": 1200, "thorough": 30000}
    CHUNK = 10
    RULE = ("One run = a scratch directory of 1-6 files (generated labels, "
            "tests/data labels cut to <=1500 characters, value-loss labels, "
            "token-damaged labels, labels that load but do not encode in "
            "some dialect, a label followed by binary bytes) and 1-5 tool "
            "invocations in one interpreter with the tools' module-level "
            "instances reloaded once at run start: pvl_validate.main with "
            "one or many files in seeded order and 0-2 -v flags, in 12% of "
            "them with an in-flight fault (the token stream of one row's "
            "shared parser raises at token k); "
            "pvl_translate.main for PDS3/ODL/ISIS/PVL/JSON with a path or "
            "simulated STDIN (seekable or pipe) as input and a path or "
            "simulated STDOUT as output.  Oracle: translate output equals "
            "pvl.dumps(pvl.load(input), encoder=<fresh encoder>) byte for "
            "byte (JSON: parses to the nested (name, value) pairs) and main "
            "fails exactly when that library call raises; validate's loads "
            "/ encodes cell of every row equals what a fresh parser / "
            "encoder of that dialect does; every file has a row.  "
            "evaluations = tool invocations + reference library calls.  "
            "Non-trivial run = >= 2 invocations or >= 2 files with at least "
            "one damaged or non-encodable file; distinct = distinct "
            "event-log digests among those."
            " Also generated: legal files of 150-180 nested blocks, files 400-600 collections deep, byte order marks, Latin-1 bytes inside labels, an in-flight abort in one validate row; all invocations of a run share one simulated standard output, as in a real process.")
    ASSUMPTIONS = [
        "the reference for a validate row is a fresh parser/encoder pair "
        "built like the dialects table documents it",
        "text written through argparse.FileType('w') is compared on Linux "
        "(no newline translation of '\\n')",
        "the reference for translate is pvl.load() of the same path, or of "
        "an equivalent fresh stream when the tool reads STDIN",
    ]
    COMPONENTS_REAL = ["pvl.pvl_translate.main, pvl.pvl_validate.main and "
                       "their module-level format/dialect tables",
                       "argparse.FileType, real scratch files", "pvl.load/"
                       "loads/dumps/dump"]
    COMPONENTS_STUB = ["simulated sys.stdin (SimRaw under TextIOWrapper) and "
                       "sys.stdout (StringIO / SimRawW under TextIOWrapper)"]
    REQUIRED_PROBES = ["probe.validate-many", "probe.validate-single",
                       "probe.translate-stdin", "probe.translate-stdin-pipe",
                       "probe.translate-stdout", "probe.translate-outfile",
                       "probe.translate-json", "probe.file-damaged",
                       "probe.file-value-loss", "probe.file-binary-tail",
                       "probe.file-not-encodable", "probe.second-invocation",
                       "probe.translate-refused", "probe.file-too-deep",
                       "probe.file-with-deeply-nested-blocks",
                       "probe.file-with-byte-order-mark",
                       "probe.validate-with-injected-fault"]

    # ---- files
    def make_files(self, rng, out):
        files = {}
        n = rng.randint(1, 6)
        for i in range(n):
            kind = rng.choice(["plain", "plain", "corpus", "value-loss",
                               "damaged", "not-encodable", "binary-tail"])
            if rng.random() < 0.04:
                kind = "deep"
            elif rng.random() < 0.04:
                kind = "nested-blocks"
            elif rng.random() < 0.05:
                kind = "bom"
            stmts, toks, text, style = gen.render_doc(
                rng, "default", max_stmts=rng.choice([1, 2, 4, 6]),
                extended=rng.random() < 0.3)
            data = text.encode()
            if kind == "corpus":
                from .c06 import corpus
                if corpus():
                    t = rng.choice(corpus())[1][:1500]
                    cut = t.rfind("\n")
                    data = (t[:cut + 1] if cut > 0 else t).encode()
            elif kind == "value-loss":
                ids = sorted(set(t.stmt for t in toks if t.role == "value"))
                if ids:
                    lose = set(rng.sample(ids, rng.randint(
                        1, min(2, len(ids)))))
                    dam = [t for t in toks if not (
                        t.stmt in lose and t.role in (
                            "value", "element", "open", "closer", "comma",
                            "units"))]
                    data = gen.render_tokens(rng, "default", dam,
                                             False)[1].encode()
                    out.inc("probe.file-value-loss")
                    out.inc("fault.value-loss")
            elif kind == "damaged":
                plan = e1.random_plan(rng, toks, rng.choice([1, 2]),
                                      ["drop", "dup", "swap", "replace",
                                       "eof"])
                data = gen.render_tokens(rng, "default", e1.apply_plan(
                    toks, plan))[1].encode()
                out.inc("probe.file-damaged")
                out.inc("fault.token-damage")
            elif kind == "not-encodable":
                extra = rng.choice([
                    "S = {1.5, 2.5}\n", "T = 12:00:00+03\n",
                    "A234567890123456789012345678901234567890 = 1\n",
                    "Q = \"both ' and \\\" here\"\n" if False else
                    "U = 5 <a b c!>\n", "N = (1, (2, (3, 4)))\n",
                    "E = ()\n", "Z = 01:02:03.0000049\n"])
                data = (extra + text).encode()
                out.inc("probe.file-not-encodable")
            elif kind == "bom":
                data = b"\xef\xbb\xbf" + data
                out.inc("probe.file-with-byte-order-mark")
            elif kind == "deep":
                # nested far deeper than any parser here can follow: every
                # dialect's load fails with a non-PVL exception
                d = rng.choice([400, 600])
                data = ("DEEP = " + "(" * d + "1" + ")" * d +
                        "\nEND\n").encode()
                out.inc("probe.file-too-deep")
            elif kind == "nested-blocks":
                # legal, and deeper than labels usually are, but well
                # within what every parser and encoder here can follow
                d = rng.choice([150, 180])
                kw = rng.choice(["OBJECT", "GROUP"])
                data = ("".join("%s = n%d\n" % (kw, j) for j in range(d)) +
                        "X = 1\n" + "".join(
                            "END_%s = n%d\n" % (kw, j)
                            for j in reversed(range(d))) + "END\n").encode()
                out.inc("probe.file-with-deeply-nested-blocks")
            elif kind == "binary-tail":
                if "END" not in [t.kind for t in toks]:
                    data = data + b"END\n"
                data = data + bytes(rng.randrange(256)
                                    for _ in range(rng.randint(1, 200)))
                out.inc("probe.file-binary-tail")
                out.inc("fault.binary-after-END")
            files["f%d.lbl" % i] = data.hex()
        return files

    # ---- expected verdicts of one file
    def verdicts(self, text, inject=None):
        v = {}
        for row in ROWS:
            cfg = ROWCFG[row]
            lexer_fn = None
            if inject and inject["row"] == row:
                lexer_fn = chan.make_lexer_fn(inject["plan"])
            o = dialects.load(cfg, text, lexer_fn)
            if o.kind != "ok":
                v[row] = (False, None)
                continue
            enc = dialects.make_encoder(cfg)
            eo = core.guarded(lambda: enc.encode(o.value), 5000)
            v[row] = (True, eo.kind == "ok")
        return v

    def parse_report(self, report, names, many):
        """-> {file: {row: (loads, encodes)}} or None if unparsable."""
        res = {}
        lines = [ln for ln in report.split("\n") if ln.strip()]
        lines = [ln for ln in lines
                 if not ln.startswith("pvl library version")]
        if not many:
            r = {}
            for ln in lines:
                cells = [c.strip() for c in ln.split("|")]
                if len(cells) != 3 or cells[0] not in ROWS:
                    return None
                loads = {"Loads": True, "does NOT load": False}.get(cells[1])
                enc = {"Encodes": True, "does NOT encode": False,
                       "": None}.get(cells[2], "?")
                if loads is None or enc == "?":
                    return None
                r[cells[0]] = (loads, enc)
            res[names[0]] = r
            return res
        body = [ln for ln in lines if not ln.startswith("-")]
        if not body:
            return None
        header = [c.strip() for c in body[0].split("|")]
        if header[0] != "File" or header[1:] != ROWS:
            return None
        for ln in body[1:]:
            cells = [c.strip() for c in ln.split("|")]
            if len(cells) != 1 + len(ROWS):
                return None
            r = {}
            for row, cell in zip(ROWS, cells[1:]):
                cell = " ".join(cell.split())
                m = {"L E": (True, True), "L No E": (True, False),
                     "No L": (False, None), "L": (True, None)}.get(cell)
                if m is None:
                    return None
                r[row] = m
            res[cells[0]] = r
        return res

    # ---- one explicit case
    def execute_case(self, case, out=None):
        vs = []
        d = iosim.SCRATCH.path("dir%d" % iosim.SCRATCH.n)
        os.makedirs(d, exist_ok=True)
        paths = {}
        for name, hx in case["files"].items():
            p = os.path.join(d, name)
            with open(p, "wb") as f:
                f.write(bytes.fromhex(hx))
            paths[name] = p
        import pvl.pvl_validate as V
        import pvl.pvl_translate as T
        importlib.reload(V)
        importlib.reload(T)
        saved = (sys.stdin, sys.stdout, sys.stderr)
        self.proc_stdout = ProcessStdout()
        try:
            for ii, inv in enumerate(case["invocations"]):
                def viol(cls, detail, sub):
                    vs.append(Violation(
                        cls, "invocation %d %s: %s" % (ii + 1, inv[:2],
                                                       detail),
                        dict(case, invocations=case["invocations"][:ii + 1]),
                        raw_sig="%s|%s|%s" % (cls, inv[0], sub)))
                if out is not None and ii:
                    out.inc("probe.second-invocation")
                if inv[0] == "validate":
                    self.do_validate(V, inv, paths, case, viol, out)
                else:
                    self.do_translate(T, inv, paths, case, d, viol, out)
                if vs:
                    break
        finally:
            sys.stdin, sys.stdout, sys.stderr = saved
        return vs

    def run_main(self, fn, nchars):
        """Run a tool's main(); returns (Outcome, exit code or None)."""
        code = [None]

        def call():
            try:
                return fn()
            except SystemExit as e:
                code[0] = e.code
                return None
        o = core.guarded(call, nchars)
        return o, code[0]

    def do_validate(self, V, inv, paths, case, viol, out):
        _, flags, names = inv[:3]
        inject = inv[3] if len(inv) > 3 else None
        argv = list(flags) + [paths[n] for n in names]
        saved_lexer = None
        if inject:
            # a fault in flight inside one row's load: that row's token
            # stream raises; the tool must still report every file
            par = V.dialects[inject["row"]]["parser"]
            saved_lexer = (par, par.lexer)
            par.lexer = chan.make_lexer_fn(inject["plan"])
            if out is not None:
                out.inc("fault.in-flight-abort-in-validate-row")
                out.inc("probe.validate-with-injected-fault")
        buf = self.proc_stdout
        mark = len(buf.text())
        sys.stdout = buf
        sys.stderr = io.StringIO()
        total = sum(len(case["files"][n]) // 2 for n in names)
        o, code = self.run_main(lambda: V.main(argv), 6 * total + 500)
        sys.stdout = sys.__stdout__
        if saved_lexer:
            saved_lexer[0].lexer = saved_lexer[1]
        many = len(names) > 1
        if out is not None:
            out.evals += 1
            out.inc("probe.validate-many" if many else
                    "probe.validate-single")
            out.log.ev("validate", flags, names, o.brief())
        if o.kind != "ok" or code not in (None, 0):
            return viol("validate-did-not-complete",
                        "main ended in %s (exit %r) for readable text files"
                        % (o.brief(), code), o.brief())
        rep = self.parse_report(buf.text()[mark:], [paths[n] for n in names],
                                many)
        if rep is None:
            return viol("report-unparsable", "report: %r" %
                        buf.text()[mark:][:400], "layout")
        for n in names:
            p = paths[n]
            if p not in rep:
                viol("file-missing-from-report", "%s has no row" % n, "row")
                continue
            # "that dialect's load of the file": the text the library
            # itself makes of the file (C09 judges that step, not C20)
            exp = self.verdicts(pvl.get_text_from(p), inject)
            if out is not None:
                out.evals += 10
            for row in ROWS:
                if rep[p].get(row) != exp[row]:
                    viol("wrong-verdict", "file %s row %s: report says "
                         "(loads, encodes)=%r, a fresh %s parser/encoder "
                         "gives %r" % (n, row, rep[p].get(row), row,
                                       exp[row]),
                         "%s|%r->%r" % (row, exp[row], rep[p].get(row)))

    def do_translate(self, T, inv, paths, case, d, viol, out):
        _, fmt, infile, outfile = inv
        argv = ["-of", fmt]
        if isinstance(infile, str):
            data = bytes.fromhex(case["files"][infile])
            argv.append(paths[infile])
        else:
            data = bytes.fromhex(case["files"][infile["name"]])
            sin, raw = iosim.text_reader(
                data, infile.get("buffer", 8192),
                seekable=not infile.get("pipe", False))
            sys.stdin = sin
            if out is not None:
                out.inc("probe.translate-stdin")
                if infile.get("pipe"):
                    out.inc("probe.translate-stdin-pipe")
                    out.inc("fault.non-seekable-stdin")
        outpath = None
        if outfile is not None:
            if isinstance(infile, dict):
                argv.append("-")    # argparse: '-' is STDIN for FileType
            outpath = os.path.join(d, outfile)
            argv.append(outpath)
            if out is not None:
                out.inc("probe.translate-outfile")
        elif out is not None:
            out.inc("probe.translate-stdout")
        sout = self.proc_stdout
        mark = len(sout.text())
        sys.stdout = sout
        sys.stderr = io.StringIO()
        o, code = self.run_main(lambda: T.main(argv), len(data) + 500)
        sys.stdout = sys.__stdout__
        for f in (sys.stdin,):
            pass
        failed = o.kind != "ok" or code not in (None, 0)
        # the library call on fresh instances, given the same kind of
        # input (the path, or an equivalent fresh stream for STDIN)
        if isinstance(infile, str):
            src = paths[infile]
        else:
            src, _ = iosim.text_reader(
                data, infile.get("buffer", 8192),
                seekable=not infile.get("pipe", False))
        lo = core.guarded(lambda: pvl.load(src), len(data) + 500)
        exp = None
        if lo.kind == "ok":
            if fmt == "JSON":
                eo = core.guarded(lambda: json.dumps(lo.value), 5000)
            else:
                enc = fresh_encoder(fmt)
                eo = core.guarded(lambda: pvl.dumps(lo.value, encoder=enc),
                                  5000)
            if eo.kind == "ok":
                exp = eo.value
            lib = eo
        else:
            lib = lo
        if out is not None:
            out.evals += 3
            if fmt == "JSON":
                out.inc("probe.translate-json")
            if exp is None:
                out.inc("probe.translate-refused")
            out.log.ev("translate", fmt, str(infile)[:60], outfile,
                       o.brief(), core=False)
        if exp is None:
            if not failed:
                viol("translate-succeeded-where-library-fails",
                     "library call ends in %s but main returned normally"
                     % lib.brief(), fmt)
            return
        if failed:
            return viol("translate-failed-where-library-succeeds",
                        "main ended in %s (exit %r); pvl.dumps(pvl.load()) "
                        "returns %d characters" % (o.brief(), code,
                                                   len(exp)),
                        "%s|%s|%s" % (fmt, o.brief(), "stdin-pipe" if
                                      isinstance(infile, dict) and
                                      infile.get("pipe") else "-"))
        if outpath is not None:
            # main() leaves closing its output file to interpreter exit;
            # in-process that is the garbage collector's job
            gc.collect()
            try:
                with open(outpath, "rb") as f:
                    got = f.read().decode()
            except OSError:
                got = None
        else:
            got = sout.text()[mark:]
        if fmt == "JSON":
            try:
                parsed = json.loads(got, object_pairs_hook=lambda ps:
                                    [[k, v] for k, v in ps])
            except Exception as e:  # noqa: BLE001
                return viol("json-unparsable", "output %r: %s" %
                            ((got or "")[:200], e), fmt)
            want = json.loads(json.dumps(as_pairs(lo.value)))
            if parsed != want:
                viol("json-content", "output parses to %r, the label is %r"
                     % (str(parsed)[:300], str(want)[:300]), fmt)
            return
        if got != exp and got is not None and "nan" in exp.lower() and \
                len(got) == len(exp):
            # a NaN hashes by identity, so two separately loaded modules may
            # write the elements of a set holding one in another order:
            # compare what the two texts denote instead
            a = dialects.load("default", got)
            b = dialects.load("default", exp)
            if a.kind == b.kind == "ok" and core.canon(a.value) == \
                    core.canon(b.value):
                if out is not None:
                    out.inc("probe.set-order-differs-because-of-nan")
                return
            # a set inside a set does not load back at all: then the two
            # texts must at least consist of the same pieces in another
            # order (same length, same multiset of tokens)
            import re as _re

            def pieces(t):
                return sorted(x for x in _re.split(r"[\s,{}()]+", t) if x)
            if pieces(got) == pieces(exp):
                if out is not None:
                    out.inc("probe.set-order-differs-because-of-nan")
                return
        if got != exp:
            viol("translate-output-differs",
                 "-of %s wrote %r..., pvl.dumps with a fresh %s encoder "
                 "gives %r..." % (fmt, (got or "")[:120], fmt, exp[:120]),
                 fmt)

    # ---- one run
    def run(self, rng, index, tier):
        out = RunOut()
        try:
            files = self.make_files(rng, out)
            names = sorted(files)
            invs = []
            for _ in range(rng.randint(1, 5)):
                if rng.random() < 0.5:
                    k = rng.randint(1, len(names))
                    chosen = rng.sample(names, k)
                    flags = ["-v"] * rng.choice([0, 0, 1, 2])
                    inv = ["validate", flags, chosen]
                    if rng.random() < 0.12:
                        inv.append({"row": rng.choice(ROWS), "plan": [
                            {"kind": "abort", "at": rng.choice([0, 0, 1, 3])}
                        ]})
                    invs.append(inv)
                else:
                    fmt = rng.choice(FORMATS)
                    n = rng.choice(names)
                    if rng.random() < 0.4:
                        infile = {"name": n, "pipe": rng.random() < 0.5,
                                  "buffer": rng.choice([1, 64, 8192])}
                    else:
                        infile = n
                    outfile = ("out%d.txt" % len(invs)) \
                        if rng.random() < 0.4 else None
                    invs.append(["translate", fmt, infile, outfile])
            case = {"files": files, "invocations": invs}
            out.log.ev("files", sorted(files.items()))
            out.violations.extend(self.execute_case(case, out))
            if len(invs) >= 2 or len(files) >= 2:
                out.nontrivial = True
            if out.violations:
                out.inc("violations", len(out.violations))
            if index % 100 == 0:
                out.sample = {"run_index": index, "files": {
                    k: bytes.fromhex(v)[:120].decode("latin-1")
                    for k, v in list(files.items())[:3]},
                    "invocations": invs}
            return out
        finally:
            iosim.SCRATCH.clean()

    def execute(self, case):
        try:
            return self.execute_case(case)
        finally:
            iosim.SCRATCH.clean()

    def reductions(self, case):
        invs = case["invocations"]
        for i in range(len(invs) - 2, -1, -1):
            yield dict(case, invocations=invs[:i] + invs[i + 1:])
        last = invs[-1]
        if last[0] == "validate" and len(last[2]) > 1:
            for j in range(len(last[2])):
                yield dict(case, invocations=invs[:-1] + [
                    ["validate", last[1], last[2][:j] + last[2][j + 1:]] +
                    last[3:]])
        if last[0] == "validate" and last[1]:
            yield dict(case, invocations=invs[:-1] + [
                ["validate", [], last[2]] + last[3:]])
        if last[0] == "validate" and len(last) > 3:
            yield dict(case, invocations=invs[:-1] + [last[:3]])
        used = set()
        for inv in invs:
            if inv[0] == "validate":
                used.update(inv[2])
            else:
                used.add(inv[2] if isinstance(inv[2], str) else
                         inv[2]["name"])
        unused = [n for n in case["files"] if n not in used]
        if unused:
            yield dict(case, files={k: v for k, v in case["files"].items()
                                    if k in used})
        for n in sorted(used):
            data = bytes.fromhex(case["files"][n])
            lines = data.split(b"\n")
            if len(lines) > 1:
                for j in range(len(lines) - 1, -1, -1):
                    nd = b"\n".join(lines[:j] + lines[j + 1:])
                    yield dict(case, files=dict(case["files"],
                                                **{n: nd.hex()}))

    def signature(self, case, v):
        return v.raw_sig


PROP = C20()
