"""C08 - missing values are tolerated by the default loader and located
exactly.

Engine E1 with one fault kind: *value loss* (the "lost write" of this
world) - all value tokens of an assignment, including a units expression,
disappear from the stored text.  Per label the losses are placed
systematically (each single assignment, adjacent pairs, first/last of each
block, all assignments of a block) and by seeded subsets.

Oracle: the tolerant reading of the damaged token list by the independent
recogniser gives the expected tree, in which every voided parameter holds
an empty-string placeholder whose lineno is the 1-based line of that
parameter's '=' (known from the renderer's position map); module.errors
must be exactly those line numbers, sorted.  The strict PVL, ODL and PDS3
parsers must raise LexerError or ParseError on the same text.
"""
from .. import core, gen, refparse, dialects, e1
import pvl
from ..core import Property, RunOut, Violation
from ..gen import SEMI, EQ

VALUE_ROLES = ("value", "element", "open", "closer", "comma", "units")


def render_simple(toks):
    """Deterministic plain layout used for shrunk cases; sets lines."""
    parts = []
    for i, t in enumerate(toks):
        if i:
            parts.append("\n" if t.role in ("name", "begin", "end-kw",
                                            "END") else " ")
        t.start = sum(len(p) for p in parts)
        parts.append(t.text)
    text = "".join(parts) + "\n"
    for t in toks:
        t.line = text.count("\n", 0, t.start) + 1
    return text


class C08(Property):
    ID = "C08"
    RUNS = {"quick": 1500, "thorough": 60000}
    CHUNK = 20
    RULE = ("One run = one generated well-formed label (1-10 statements, "
            "nested blocks, core vocabulary) under a seeded layout with "
            "position map; value-loss plans: each single assignment, each "
            "adjacent pair, first and last assignment of each block, all "
            "assignments of a block, plus seeded random subsets (<=40 plans "
            "per label); per plan a fresh layout (the ';' after the lost "
            "value kept or not, '=' on the name's line or its own, comments "
            "- optionally containing '=' - between the '=' and what "
            "follows).  Each plan is loaded by pvl.loads(text) (expected: "
            "the pre-fault tree with empty-string placeholders carrying "
            "the line of their '=', errors == sorted lines) and by the "
            "strict PVL, ODL and PDS3 parsers (expected: LexerError or "
            "ParseError).  evaluations = loads.  Non-trivial plan: >=1 "
            "value lost with >=1 intact statement before it; distinct = "
            "distinct event-log digests of runs containing such plans."
            " Also generated: 1-3 dash-continued statements first (20%), another configuration used first in the process, the text handed over as bytes or a binary stream (20%), the caller's container classes (15%), runs of 600-2100 adjacent value-less parameters (1.5%), and pre-emption (20%): at a seeded line event of the default load another caller's complete default load runs, driven from the step meter's sys.monitoring callback; the load under test must return what it returns alone.")
    ASSUMPTIONS = [
        "the line of a parameter's '=' is 1 + the number of '\\n' characters "
        "before it (the definition documented in pvl/exceptions.py)",
        "lines are those of the text as handed to the loader; 15% of the "
        "labels carry a dash-continued string before the losses (the "
        "default parser removes continuations before lexing)",
    ]
    COMPONENTS_REAL = ["pvl.loads (OmniParser/OmniGrammar/OmniDecoder)",
                       "PVLParser, ODLParser with PVL/ODL/PDS3 grammars",
                       "pvl.lexer.lexer"]
    COMPONENTS_STUB = ["none"]
    REQUIRED_PROBES = ["probe.loss-last-in-block", "probe.loss-first-in-block",
                       "probe.loss-adjacent-pair", "probe.loss-before-END",
                       "probe.loss-at-end-of-text", "probe.loss-whole-block",
                       "probe.loss-with-semicolon-kept",
                       "probe.comment-with-equals-after-loss",
                       "probe.loss-before-block-begin",
                       "probe.eq-on-own-line",
                       "probe.dash-continuation-before-loss",
                       "probe.other-configuration-used-first",
                       "probe.several-dash-continuations",
                       "probe.custom-container-classes",
                       "probe.label-handed-over-as-bytes",
                       "fault.preempted-by-another-load",
                       "probe.long-run-of-adjacent-gaps"]

    def expected(self, toks):
        """(expected tree with ("empty", line), sorted lines) or None."""
        v = refparse.recognise(toks, "default", e1.value_of)
        if v[0] != "ACCEPT":
            return None, v

        def fix(c):
            if isinstance(c, tuple):
                if len(c) == 2 and c[0] == "empty":
                    return ("empty", toks[c[1]].line)
                return tuple(fix(x) for x in c)
            return c

        def lines(c, acc):
            if isinstance(c, tuple):
                if len(c) == 2 and c[0] == "empty":
                    acc.append(c[1])
                else:
                    for x in c:
                        lines(x, acc)
            return acc

        tree = fix(v[1])
        return tree, sorted(lines(tree, []))

    def execute_case(self, case, out=None):
        toks = [e1.tok_from(j) for j in case["tokens"]]
        for t, ln in zip(toks, case["lines"]):
            t.line = ln
        text = case["text"]
        tree, errs = self.expected(toks)
        vs = []

        def viol(cls, detail, sub):
            vs.append(Violation(cls, detail, case,
                                raw_sig="%s|%s" % (cls, sub)))

        if tree is None:
            if out is not None:
                out.inc("oracle-abstained")
            return vs
        if case.get("other_first"):
            # another configuration used earlier in the same process must
            # not matter (state shared between parser instances)
            dialects.load(case["other_first"], text)
        custom = case.get("custom", False)
        route = case.get("route", "str")
        if route == "bytes":
            o = dialects.load("default", text.encode(), custom=custom)
        elif route == "binary-stream":
            import io
            kw = dialects.custom_kw(custom)
            o = core.guarded(lambda: pvl.load(io.BytesIO(text.encode()),
                                              **kw), len(text))
        elif case.get("preempt"):
            # another caller's complete default load happens in the middle
            # of this one (a thread switch at line event k)
            pk, ptext = case["preempt"]["at"], case["preempt"]["text"]
            o = core.guarded(lambda: pvl.loads(text), len(text),
                             preempt=(pk, lambda: pvl.loads(ptext)))
        else:
            o = dialects.load("default", text, custom=custom)
        if out is not None:
            out.evals += 1
            out.log.ev("default", route, str(custom), o.brief())
        if o.kind != "ok":
            viol("tolerant-load-failed",
                 "pvl.loads raised %s on text with %d missing value(s): %s; "
                 "text=%r" % (o.brief(), len(errs), str(o.exc)[:150],
                              text[:300]), o.brief())
        else:
            got = core.canon(o.value)
            if got != tree:
                if e1.strip_lineno(got) != e1.strip_lineno(tree):
                    viol("statements-altered",
                         "default loader returned %r, expected %r; text=%r"
                         % (got, tree, text[:300]), "tree")
                else:
                    viol("wrong-lineno",
                         "placeholder line numbers differ: got %r expected "
                         "%r; text=%r" % (got, tree, text[:300]), "lineno")
            ge = getattr(o.value, "errors", None)
            if ge != errs:
                viol("wrong-errors-attribute",
                     "module.errors == %r, expected %r; text=%r" %
                     (ge, errs, text[:300]), "errors")
            else:
                for v in self.placeholders(o.value):
                    if not (isinstance(v, str) and v == ""):
                        viol("placeholder-not-empty-string",
                             "placeholder is %r" % (v,), "type")
        if errs:
            for config in dialects.STRICT:
                so = dialects.load(config, text)
                if out is not None:
                    out.evals += 1
                    out.log.ev(config, so.brief())
                if so.kind == "ok":
                    viol("strict-accepted",
                         "%s parser returned %s for text with a missing "
                         "value; text=%r" % (config, core.short(so.value),
                                             text[:300]), config)
                elif not so.documented():
                    viol("strict-undocumented-exit",
                         "%s parser ended in %s; text=%r" %
                         (config, so.brief(), text[:300]),
                         config + "|" + so.brief())
        return vs

    def placeholders(self, m):
        from pvl.parser import EmptyValueAtLine
        from pvl.collections import OrderedMultiDict
        for k, v in list(m):
            if isinstance(v, EmptyValueAtLine):
                yield v
            elif isinstance(v, OrderedMultiDict):
                yield from self.placeholders(v)

    def run(self, rng, index, tier):
        out = RunOut()
        stmts = gen.DocGen(rng, max_stmts=rng.choice([1, 2, 3, 5, 8, 10])
                           ).document()
        style = gen.Style(rng, "default")
        toks = gen.full_tokens(stmts, style)
        if rng.random() < 0.2:
            # dash continuations earlier in the file: the default parser
            # removes "-<line end><white space>" before lexing, which must
            # not shift the line numbers it reports.  One to three of them,
            # at the top and between top-level statements.
            tops = [i for i, t in enumerate(toks)
                    if t.depth == 0 and t.role in ("name", "begin")]
            places = sorted(set([0] + [rng.choice(tops) for _ in range(
                rng.choice([0, 1, 2]))])) if tops else [0]
            for n_ins, at in enumerate(reversed(places)):
                nl = rng.choice(["\n", "\r\n", "\n\n"])
                sid = -1 - n_ins
                cont = gen.Tok(gen.STR, '"abc-' + nl + '      def"', "value",
                               0, sid, ("str", "abcdef"))
                toks[at:at] = [gen.Tok(gen.NAME, "DASHED", "name", 0, sid,
                                       ("str", "DASHED")),
                               gen.Tok(gen.EQ, "=", "eq", 0, sid), cont]
            out.inc("probe.dash-continuation-before-loss")
            if len(places) > 1:
                out.inc("probe.several-dash-continuations")
        gap_run = rng.random() < 0.015
        if gap_run:
            # a long run of adjacent parameters that all lost their values
            # (a table whose value column was cut off)
            nrun = rng.choice([600, 990, 1100, 1300, 2100])
            toks = []
            for i in range(nrun):
                toks += [gen.Tok(gen.NAME, "K%d" % i, "name", 0, i + 1,
                                 ("str", "K%d" % i)),
                         gen.Tok(gen.EQ, "=", "eq", 0, i + 1),
                         gen.Tok(gen.NUM, str(i), "value", 0, i + 1,
                                 ("int", i))]
            out.inc("probe.long-run-of-adjacent-gaps")
        # assignments: stmt id -> indices of value tokens, name index
        assigns = {}
        order = []
        for i, t in enumerate(toks):
            if t.role == "name":
                assigns[t.stmt] = {"name": i, "values": [], "semi": None,
                                   "depth": t.depth}
                order.append(t.stmt)
            elif t.stmt in assigns and t.role in VALUE_ROLES:
                assigns[t.stmt]["values"].append(i)
            elif t.stmt in assigns and t.kind == SEMI:
                assigns[t.stmt]["semi"] = i
        if not order:
            return out
        out.log.ev("label", " ".join(t.text for t in toks))
        # blocks: consecutive assignments sharing the enclosing block
        blocks = {}
        cur = []
        for i, t in enumerate(toks):
            if t.role == "begin":
                cur.append(t.stmt)
            elif t.role == "end-kw":
                cur.pop()
            elif t.role == "name":
                blocks.setdefault(tuple(cur), []).append(t.stmt)
        plans = []
        for s in order:
            plans.append(("single", [s]))
        for a, b in zip(order, order[1:]):
            plans.append(("adjacent-pair", [a, b]))
        for key, members in blocks.items():
            if key:
                plans.append(("first-in-block", [members[0]]))
                plans.append(("last-in-block", [members[-1]]))
                plans.append(("whole-block", list(members)))
        for _ in range(6):
            k = rng.randint(1, min(4, len(order)))
            plans.append(("subset", sorted(rng.sample(order, k))))
        if len(plans) > 40:
            plans = rng.sample(plans, 40)
        if gap_run:
            plans = [("gap-run", list(order)), ("gap-run", list(order[:-1]))]
        other_first = rng.choice([None, None, "ISIS", "ISIS", "PVL"])
        if other_first:
            out.inc("probe.other-configuration-used-first")
        # the default loader with the caller's own container classes, and
        # fed bytes or a binary stream instead of a str
        custom = rng.choice([True, "plain", "plain"]) \
            if rng.random() < 0.15 else False
        if custom:
            out.inc("probe.custom-container-classes")
        route = rng.choice(["bytes", "binary-stream"]) \
            if rng.random() < 0.2 else "str"
        preempting = rng.random() < 0.2
        if route != "str":
            out.inc("probe.label-handed-over-as-bytes")
        for kind, lose in plans:
            lose = set(lose)
            keep_semi = rng.random() < 0.5
            dropped = set()
            for s in lose:
                dropped.update(assigns[s]["values"])
                if assigns[s]["semi"] is not None and not keep_semi:
                    dropped.add(assigns[s]["semi"])
            damaged = [t.clone() for i, t in enumerate(toks)
                       if i not in dropped]
            text = gen.Layout(rng, "default").render(damaged)
            out.inc("fault.value-loss", len(lose))
            out.inc("probe.loss-" + kind) if kind != "single" else None
            # reach probes from the damaged token list
            first_lost = None
            for i, t in enumerate(damaged):
                if t.role == "eq" and t.stmt in lose:
                    if first_lost is None:
                        first_lost = i
                    nxt = damaged[i + 1] if i + 1 < len(damaged) else None
                    if nxt is None:
                        out.inc("probe.loss-at-end-of-text")
                    elif nxt.kind == gen.END:
                        out.inc("probe.loss-before-END")
                    elif nxt.role == "begin":
                        out.inc("probe.loss-before-block-begin")
                    elif nxt.role == "end-kw":
                        out.inc("probe.loss-last-in-block")
                    elif nxt.kind == SEMI:
                        out.inc("probe.loss-with-semicolon-kept")
                    gap = text[t.end:nxt.start] if nxt is not None else \
                        text[t.end:]
                    if "=" in gap:
                        out.inc("probe.comment-with-equals-after-loss")
                    if i and damaged[i - 1].line != t.line:
                        out.inc("probe.eq-on-own-line")
            if first_lost is not None and first_lost > 3:
                out.nontrivial = True
            case = {"tokens": [e1.tok_json(t) for t in damaged],
                    "lines": [t.line for t in damaged], "text": text,
                    "lost": len(lose)}
            if other_first:
                case["other_first"] = other_first
            if custom:
                case["custom"] = custom
            if route != "str":
                case["route"] = route
            if preempting and not custom and route == "str":
                case["preempt"] = {
                    "at": rng.randrange(20, 90 * len(text) + 21),
                    "text": "\n" * rng.randrange(0, 40) + rng.choice([
                        "P =\nQ = 1\n", "P = 1\n\n\nQ =\nR =\nEND\n",
                        "GROUP = g\n  P =\nEND_GROUP\nQ = \"a-\n b\"\n",
                        "P = (1, 2\n"])}
                out.inc("fault.preempted-by-another-load")
            out.violations.extend(self.execute_case(case, out))
        if out.violations:
            out.inc("violations", len(out.violations))
        if index % 200 == 0:
            out.sample = {"run_index": index,
                          "label": " ".join(t.text for t in toks)[:300],
                          "plans": [(k, sorted(l)) for k, l in plans[:6]]}
        return out

    def execute(self, case):
        return self.execute_case(case)

    def reductions(self, case):
        toks = [e1.tok_from(j) for j in case["tokens"]]

        def rebuilt(ts):
            ts = [t.clone() for t in ts]
            text = render_simple(ts)
            c = {"tokens": [e1.tok_json(t) for t in ts],
                 "lines": [t.line for t in ts], "text": text,
                 "lost": case.get("lost", 0)}
            for k in ("other_first", "custom", "route", "preempt"):
                if case.get(k):
                    c[k] = case[k]
            return c

        plain = rebuilt(toks)
        if plain["text"] != case["text"]:
            yield plain
        stmts = sorted(set(t.stmt for t in toks if t.stmt), reverse=True)
        for s in stmts:
            keep = [t for t in toks if t.stmt != s]
            if len(keep) < len(toks):
                yield rebuilt(keep)
        for j in range(len(toks) - 1, -1, -1):
            yield rebuilt(toks[:j] + toks[j + 1:])

    def signature(self, case, v):
        toks = [e1.tok_from(j) for j in case["tokens"]]
        ks = " ".join(t.kind for t in toks[:16])
        return "%s|%s" % (v.raw_sig, ks)


PROP = C08()
