"""C16 - parser, decoder and encoder instances carry no state between calls.

Engine E3: a history of 2-12 calls on ONE long-lived instance (each of the
five parser configurations, the four encoders, the decoders, and the actual
shared instances pvl_validate.dialects[*] / pvl_translate.formats[*]),
including calls that fail part-way and calls aborted in flight (the
instance's token channel ends or raises at token k, leaving a
half-consumed generator and half-updated doc/errors behind).

Oracle: each call's result on the long-lived instance (module in canonical
form + module.errors, or exception type + message + position) equals the
result of the same call on a fresh instance of the same configuration; a
sampled subset is also computed in a cold child forked from a pristine
interpreter (class-level leaks would be shared by a fresh instance in the
same process).
"""
import importlib
import json
import os
import subprocess
import sys

from .. import core, gen, chan, dialects, e1
from ..core import Property, RunOut, Violation

import pvl
from pvl.collections import PVLModule, PVLGroup, PVLObject, Quantity
import datetime as _dt

import re as _re
ENC_NAMES = ["PVL", "ODL", "PDS3", "ISIS"]
_ADDR = _re.compile(r"0x[0-9a-fA-F]+")   # object addresses in messages


# ---- instances --------------------------------------------------------------

class StrictQuantity(Quantity):
    """A quantity class that knows a few units and refuses the rest."""
    KNOWN = {"m", "km", "mm", "Mm", "s", "ms", "Ms", "km/s", "g", "G"}

    def __new__(cls, value, units):
        if units not in cls.KNOWN:
            raise ValueError("'%s' did not parse as unit" % (units,))
        return super().__new__(cls, value, units)


def make_instance(kind):
    """kind: 'parser:<cfg>' | 'encoder:<cfg>' | 'decoder:<cfg>' |
    'shared:validate:<dialect>:parser|encoder' | 'shared:translate:<fmt>'"""
    parts = kind.split(":")
    if parts[0] == "parser":
        return dialects.make_parser(parts[1])
    if parts[0] == "encoder":
        return dialects.make_encoder(parts[1])
    if parts[0] == "decoder":
        d = dialects.make_parser(parts[1]).decoder
        if len(parts) > 2 and parts[2] == "strictq":
            # the documented quantity_cls option with a class that, like
            # astropy's or pint's, refuses units it does not know
            return type(d)(grammar=d.grammar, quantity_cls=StrictQuantity)
        return d
    if parts[0] == "shared":
        if parts[1] == "validate":
            import pvl.pvl_validate as v
            importlib.reload(v)
            return v.dialects[parts[2]][parts[3]]
        import pvl.pvl_translate as t
        importlib.reload(t)
        return t.formats[parts[2]].encoder
    raise ValueError(kind)


def fresh_for(kind):
    """A fresh instance with the documented configuration of *kind*."""
    parts = kind.split(":")
    if parts[0] != "shared":
        return make_instance(kind)
    if parts[1] == "validate":
        cfg = {"Omni": "default"}.get(parts[2], parts[2])
        if parts[3] == "parser":
            return dialects.make_parser(cfg)
        return dialects.make_encoder(cfg)
    return {"PDS3": pvl.encoder.PDSLabelEncoder, "ODL": pvl.encoder.ODLEncoder,
            "ISIS": pvl.encoder.ISISEncoder,
            "PVL": pvl.encoder.PVLEncoder}[parts[2]]()


def role(kind):
    parts = kind.split(":")
    if parts[0] == "shared":
        return "parser" if parts[-1] == "parser" else "encoder"
    return parts[0]


# ---- modules for encoder calls ---------------------------------------------

def build_module(spec):
    """spec: {"text": label} -> default load of it; or {"special": name}"""
    if "text" in spec:
        return pvl.loads(spec["text"])
    name = spec["special"]
    if name == "longname":
        return PVLModule([("A" * 40, 1)])
    if name == "bothquotes":
        return PVLModule([("a", "it's \"x\"")])
    if name == "set-of-reals":
        return PVLModule([("a", {1.5, 2.5})])
    if name == "naive-time":
        return PVLModule([("a", _dt.time(1, 2, 3))])
    if name == "group-only":
        return PVLModule([("g", PVLGroup([("x", 1)])), ("b", 2)])
    if name == "quantity":
        return PVLModule([("a", Quantity(5, "m")), ("b", Quantity("x", "m"))])
    if name == "unserializable":
        return PVLModule([("a", object())])
    if name == "nonascii":
        return PVLModule([("note", "Caf\u00e9 \u20ac"), ("b", 1)])
    if name == "control":
        return PVLModule([("note", "bell\x07 del\x7f"), ("b", 1)])
    if name == "datelike-strings":
        # strings whose quoting depends on the grammar's and decoder's
        # tables (date-time formats, reserved characters, keywords)
        return PVLModule([("t", "2021-03-04T10:11:12-08:00"),
                          ("u", "12:30:15+01:00"), ("w", "A+B"),
                          ("v", "END"), ("x", "2001-001T01:02:03-0800")])
    if name == "nested":
        return PVLModule([("o", PVLObject([("g", PVLGroup([("k", [1, 2])])),
                                            ("t", "two words")]))])
    raise ValueError(name)


SPECIALS = ["longname", "bothquotes", "set-of-reals", "naive-time",
            "group-only", "quantity", "unserializable", "nested",
            "nonascii", "nonascii", "control", "datelike-strings",
            "datelike-strings"]

DECODE_POOL = ["12", "-3.5", "16#FF#", "2#101#", "'q s'", '"x"', "abc",
               "NULL", "true", "2001-01-01", "12:30:15Z", "2001-001T01:02:03",
               "END", "a b", "", "1e", "#", "2001-13-01", "23:59:60",
               "12:00:00+01", "'unterminated", "GROUP", "<m>", "1_0", "inf",
               "*/", "/*", "x/*y", "/* c */", "a#b", "+5", "-16#FF#",
               "16#-FF#", "3#12#", "2001-366", "N/A", "a:b"]


# ---- result descriptors -----------------------------------------------------

def describe_outcome(o):
    if o.kind == "ok":
        v = o.value
        if isinstance(v, str) and not isinstance(
                v, pvl.parser.EmptyValueAtLine):
            return ("ok-text", v)
        if isinstance(v, pvl.collections.OrderedMultiDict):
            return ("ok", core.canon(v), tuple(getattr(v, "errors", ())))
        return ("ok-value", core.canon(v))
    if o.kind == "LexerError":
        e = o.exc
        return ("LexerError",
                _ADDR.sub("0x?", str(e.args[-1])) if e.args else "",
                e.pos, e.lineno, e.colno)
    if o.kind == "ParseError":
        e = o.exc
        return ("ParseError", str(e.args[-1]) if e.args else "")
    if o.kind == "exc":
        return ("exc", type(o.exc).__name__, _ADDR.sub("0x?", str(o.exc))[:300])
    return (o.kind, str(o.where))


def perform(inst, kind, call, keep=None):
    """One call on *inst*; returns the result descriptor.  call["warn"]:
    "error" = the caller runs with warnings turned into errors (python -W
    error), "record" = the warnings issued during the call are part of the
    result.  *keep*: list that receives the returned object itself."""
    mode = call.get("warn")
    if not mode:
        return _perform(inst, kind, call, keep)
    import warnings
    with warnings.catch_warnings(record=(mode == "record")) as rec:
        warnings.simplefilter("error" if mode == "error" else "always")
        d = _perform(inst, kind, call, keep)
        if mode == "record":
            d = d + (("warnings",) + tuple(
                w.category.__name__ for w in rec),)
    return d


def _perform(inst, kind, call, keep=None):
    r = role(kind)
    if r == "parser":
        plan = call.get("plan")
        saved = inst.lexer
        if plan is not None:
            inst.lexer = chan.make_lexer_fn(plan)
        try:
            text = call["text"]
            if call.get("via") == "loads":
                o = core.guarded(lambda: pvl.loads(text, parser=inst),
                                 len(text))
            else:
                o = core.guarded(lambda: inst.parse(text), len(text))
        finally:
            inst.lexer = saved
        if keep is not None and o.kind == "ok":
            keep.append(o.value)
        return describe_outcome(o)
    if r == "encoder":
        try:
            m = build_module(call["module"])
        except Exception as e:  # noqa: BLE001
            return ("module-build-failed", type(e).__name__)
        via = call.get("via")
        if via == "dumps":
            o = core.guarded(lambda: pvl.dumps(m, encoder=inst), 4000)
        elif via == "dump":
            import io

            def to_stream():
                f = io.StringIO()
                pvl.dump(m, f, encoder=inst)
                return f.getvalue()
            o = core.guarded(to_stream, 4000)
        else:
            o = core.guarded(lambda: inst.encode(m), 4000)
        return describe_outcome(o)
    if r == "decoder":
        fn = call.get("fn", "decode")
        arg = call["arg"]
        if fn == "decode_quantity":
            o = core.guarded(lambda: inst.decode_quantity(arg[0], arg[1]),
                             200)
        else:
            o = core.guarded(lambda: getattr(inst, fn)(arg), 200)
        return describe_outcome(o)
    raise ValueError(kind)


def fresh_result(kind, call):
    return perform(fresh_for(kind), kind, call)


# ---- cold server --------------------------------------------------------------

_COLD = None


def cold_result(kind, call):
    global _COLD
    if _COLD is None or _COLD.poll() is not None:
        env = dict(os.environ)
        _COLD = subprocess.Popen(
            [sys.executable, "-B",
             os.path.join(core.VERIF, "sim", "coldserver.py")],
            stdin=subprocess.PIPE, stdout=subprocess.PIPE, text=True,
            env=env)
    _COLD.stdin.write(json.dumps({"kind": kind, "call": call}) + "\n")
    _COLD.stdin.flush()
    line = _COLD.stdout.readline()
    if not line:
        raise RuntimeError("cold server died")
    return core.tuplify(json.loads(line))


class C16(Property):
    ID = "C16"
    RUNS = {"quick": 4000, "thorough": 120000}
    CHUNK = 40
    RULE = ("One run = one long-lived instance (a parser of one of the five "
            "configurations, one of the four encoders, a decoder, or one of "
            "the shared instances of pvl_validate.dialects / "
            "pvl_translate.formats after a module reload) and a seeded "
            "history of 2-12 calls (in 4% of the runs 120-260 small calls, "
            "half of them failing inside an open collection up to 60 levels "
            "deep) on it: well-formed labels, value-loss "
            "labels with different line numbers, token-damaged labels "
            "failing early / mid-block / at end of text, tests/data labels; "
            "encodable and unencodable modules; decodable and undecodable "
            "token texts; plus in-flight aborts (the token channel ends or "
            "raises SimAbort at token k).  Every call's result is compared "
            "with the same call on a fresh instance; 1 call in 20 also with "
            "a cold child forked from a pristine interpreter.  evaluations "
            "= calls on real instances (long-lived + fresh + cold).  "
            "Non-trivial run = a failed or aborted call was followed by at "
            "least one further call on the same instance; distinct = "
            "distinct event-log digests among those."
            " Also generated: the same text again, results changed by the caller, every module returned earlier re-read after each later call, warnings turned into errors or recorded (12%), encoder instances through pvl.dumps/pvl.dump, date-like strings for the encoders, decoders with a quantity class that refuses unknown units.")
    ASSUMPTIONS = [
        "a fresh instance built with the documented configuration of the "
        "row/format is the reference for a shared instance",
        "results are compared as canonical module + errors attribute, or "
        "exception type + message (+ pos/lineno/colno for LexerError)",
    ]
    COMPONENTS_REAL = ["PVLParser/ODLParser/OmniParser instances",
                       "PVL/ODL/PDS3/ISIS encoder instances", "decoders",
                       "pvl_validate.dialects and pvl_translate.formats "
                       "shared instances", "pvl.lexer.lexer"]
    COMPONENTS_STUB = ["SimLexer set on instance.lexer for aborted calls",
                       "cold server process (sim/coldserver.py)"]
    REQUIRED_PROBES = ["probe.call-after-failed-call",
                       "probe.call-after-aborted-call",
                       "probe.call-after-empty-value-load",
                       "probe.shared-instance", "probe.cold-compared",
                       "probe.encoder-history", "probe.decoder-history",
                       "probe.long-history", "probe.warnings-error",
                       "probe.warnings-record",
                       "probe.earlier-result-rechecked",
                       "probe.same-text-again"]

    def kinds(self):
        ks = ["parser:" + c for c in dialects.CONFIGS] * 3
        ks += ["encoder:" + c for c in ENC_NAMES]
        ks += ["decoder:" + c for c in dialects.CONFIGS]
        ks += ["decoder:%s:strictq" % c for c in ("ODL", "default")]
        ks += ["shared:validate:%s:parser" % d
               for d in ("PDS3", "ODL", "PVL", "ISIS", "Omni")]
        ks += ["shared:validate:%s:encoder" % d
               for d in ("PDS3", "ODL", "PVL", "ISIS")]
        ks += ["shared:translate:" + f for f in ENC_NAMES]
        return ks

    def gen_calls(self, rng, kind, out):
        r = role(kind)
        n = rng.randint(2, 12)
        long_history = rng.random() < 0.04
        if long_history:
            # many small calls on one instance: state that only creeps
            # (counters, caches, lists that grow) needs a long history
            n = rng.randint(120, 260)
            out.inc("probe.long-history")
        calls = []
        cfg = kind.split(":")[1] if not kind.startswith("shared") else \
            {"Omni": "default"}.get(kind.split(":")[2], kind.split(":")[2])
        if cfg not in dialects.CONFIGS:
            cfg = "default"
        for _ in range(n):
            if r == "parser" and long_history:
                x = rng.random()
                if x < 0.5:     # fails inside an open collection
                    depth = rng.choice([1, 1, 2, 3, 8, 30, 60])
                    text = "A = " + "(" * depth + "1, 2"
                elif x < 0.7:
                    text = "A = ((1, 2), {3}) B = \nC = 4"
                elif x < 0.85:
                    text = "GROUP = g X = (1, \nEND_GROUP"
                else:
                    text = "A = " + "(" * 40 + "1" + ")" * 40
                calls.append({"text": text})
                continue
            if r == "parser":
                x = rng.random()
                stmts, toks, text, style = gen.render_doc(
                    rng, cfg, max_stmts=rng.choice([1, 2, 4, 6]),
                    extended=rng.random() < 0.3)
                call = {"text": text}
                if x < 0.3:
                    pass                                    # well-formed
                elif x < 0.5:                               # value loss
                    ids = sorted(set(t.stmt for t in toks
                                     if t.role == "value"))
                    if ids:
                        lose = set(rng.sample(ids, rng.randint(
                            1, min(3, len(ids)))))
                        dam = [t for t in toks if not (
                            t.stmt in lose and t.role in (
                                "value", "element", "open", "closer",
                                "comma", "units"))]
                        call = {"text": gen.render_tokens(
                            rng, cfg, dam, always_separate=False)[1]}
                        out.inc("fault.value-loss")
                elif x < 0.6:                               # token damage
                    plan = e1.random_plan(rng, toks, rng.choice([1, 2]),
                                          ["drop", "dup", "swap", "replace",
                                           "eof"])
                    call = {"text": gen.render_tokens(
                        rng, cfg, e1.apply_plan(toks, plan))[1]}
                    out.inc("fault.token-damage")
                elif x < 0.75:
                    # tolerated gaps first, then a fatal error later in the
                    # same text (and sometimes a dash-continued line): what
                    # the instance noted on the way must not survive
                    head = rng.choice(["A =\nB = 1\n", "G =\n\nH =\nK = 2\n",
                                       "D = \"abc-\n   def\"\nA =\nB = 1\n",
                                       "D = x-\n  y\nE = \"p-\r\n q\"\n"])
                    tail = rng.choice(["C = (1, 2", "OBJECT = o\n X = 1\n",
                                       "C = 1 )\n", "Z = 3\nEND\n",
                                       "\n\n\nLAST =\n"])
                    call = {"text": head + text + "\n" + tail}
                    out.inc("fault.gap-then-fatal-error")
                elif x < 0.9 and len(toks) > 1:            # abort in flight
                    k = rng.randrange(len(toks))
                    call = {"text": text,
                            "plan": [{"kind": rng.choice(["abort", "eof"]),
                                      "at": k}]}
                    out.inc("fault.in-flight-" + call["plan"][0]["kind"])
                else:                                       # corpus label
                    from .c06 import corpus
                    if corpus():
                        call = {"text": rng.choice(corpus())[1][:1200]}
                if rng.random() < 0.3:
                    call["via"] = "loads"
                prev = [c for c in calls if "text" in c and "plan" not in c]
                if prev and rng.random() < 0.2:
                    # the same text again (the next file has the same label)
                    call = dict(rng.choice(prev))
                    out.inc("probe.same-text-again")
                if rng.random() < 0.25 and "plan" not in call:
                    call["mutate"] = True
                calls.append(call)
            elif r == "encoder":
                if rng.random() < 0.35:
                    calls.append({"module": {"special":
                                             rng.choice(SPECIALS)}})
                else:
                    stmts, toks, text, style = gen.render_doc(
                        rng, "default", max_stmts=rng.choice([1, 2, 4]))
                    calls.append({"module": {"text": text}})
                if rng.random() < 0.3:
                    # the instance handed to the library's own entry points
                    calls[-1]["via"] = rng.choice(["dumps", "dump"])
            else:
                if kind.endswith(":strictq") and rng.random() < 0.7:
                    calls.append({"fn": "decode_quantity", "arg": [
                        rng.choice([5, 1.5]), rng.choice(
                            ["KM", "Mm", "mm", "Ms", "ms", "G", "g", "km",
                             "furlong", "M"])]})
                    continue
                fn = rng.choice(["decode", "decode", "decode_simple_value",
                                 "decode_datetime", "decode_decimal",
                                 "decode_non_decimal", "decode_quoted_string",
                                 "decode_unquoted_string", "decode_quantity"])
                if fn == "decode_quantity":
                    calls.append({"fn": fn, "arg": [
                        rng.choice([5, 1.5, "x"]), rng.choice(
                            ["m", "km/s", "KM", "Mm", "mm", "Ms", "ms", "G",
                             "furlong", ""])]})
                else:
                    calls.append({"fn": fn, "arg": rng.choice(DECODE_POOL)})
        return calls

    def run_history(self, kind, calls, out=None, cold_every=None, rng=None):
        inst = make_instance(kind)
        vs = []
        prev_failed = prev_aborted = prev_empty = False
        earlier = []     # (call index, returned module, its description)
        for i, call in enumerate(calls):
            kept = []
            got = perform(inst, kind, call, kept)
            ref = fresh_result(kind, call)
            # results handed out earlier stay what they were
            for j, val, desc in earlier[:2] + earlier[2:][-6:]:
                now = describe_outcome(core.Outcome("ok", value=val))
                if now != desc:
                    vs.append(Violation(
                        "earlier-result-changed",
                        "%s: the result of call %d was %s; after call %d on "
                        "the same instance that very object reads %s" % (
                            kind, j + 1, str(desc)[:300], i + 1,
                            str(now)[:300]),
                        {"kind": kind, "calls": calls[:i + 1]},
                        raw_sig="earlier-result-changed|%s|%s" % (
                            role(kind), kind.split(":")[1])))
                    break
            if vs:
                break
            if kept and call.get("mutate") and isinstance(
                    kept[0], pvl.collections.OrderedMultiDict):
                # the caller goes on working with what it was given
                try:
                    kept[0].append("ZZ_CALLER", i)
                    for _k, _v in list(kept[0]):
                        if isinstance(_v, pvl.collections.OrderedMultiDict):
                            _v.append("ZZ_NESTED", i)
                            break
                        if isinstance(_v, list):
                            _v.append(i)
                            break
                except Exception:   # noqa: BLE001
                    pass
            if kept and isinstance(kept[0],
                                   pvl.collections.OrderedMultiDict):
                earlier.append((i, kept[0], describe_outcome(
                    core.Outcome("ok", value=kept[0]))))
                if out is not None and len(earlier) > 1:
                    out.inc("probe.earlier-result-rechecked")
            if out is not None:
                out.evals += 2
                out.log.ev("call", i, json.dumps(call, sort_keys=True),
                           json.dumps(core.listify(got), default=str),
                           core=(role(kind) != "encoder"))
                if prev_failed:
                    out.inc("probe.call-after-failed-call")
                    out.nontrivial = True
                if prev_aborted:
                    out.inc("probe.call-after-aborted-call")
                    out.nontrivial = True
                if prev_empty:
                    out.inc("probe.call-after-empty-value-load")
            prev_failed = got[0] not in ("ok", "ok-text", "ok-value")
            prev_aborted = got[0] == "abort" or bool(call.get("plan"))
            prev_empty = got[0] == "ok" and bool(got[2])
            if got != ref:
                vs.append(Violation(
                    "differs-from-fresh-instance",
                    "%s call %d of %d: long-lived instance gave %s, a fresh "
                    "instance gives %s" % (kind, i + 1, len(calls),
                                           str(got)[:300], str(ref)[:300]),
                    {"kind": kind, "calls": calls[:i + 1]},
                    raw_sig="differs-from-fresh|%s|%s|%s" % (
                        role(kind), kind.split(":")[1], got[0])))
                break
            if cold_every and rng is not None and rng.random() < cold_every:
                cold = cold_result(kind, call)
                if out is not None:
                    out.evals += 1
                    out.inc("probe.cold-compared")
                if core.tuplify(core.listify(got)) != cold:
                    vs.append(Violation(
                        "differs-from-cold-process",
                        "%s call %d: this process gave %s, a cold process "
                        "gives %s" % (kind, i + 1, str(got)[:300],
                                      str(cold)[:300]),
                        {"kind": kind, "calls": calls[:i + 1], "cold": True},
                        raw_sig="differs-from-cold|%s" % role(kind)))
                    break
        return vs

    def run(self, rng, index, tier):
        out = RunOut()
        kind = rng.choice(self.kinds())
        calls = self.gen_calls(rng, kind, out)
        if rng.random() < 0.12:
            # a caller that turns warnings into errors, or records them
            mode = rng.choice(["error", "record"])
            for c in calls:
                c["warn"] = mode
            out.inc("probe.warnings-" + mode)
        out.log.ev("instance", kind)
        if kind.startswith("shared"):
            out.inc("probe.shared-instance")
        if role(kind) == "encoder":
            out.inc("probe.encoder-history")
        if role(kind) == "decoder":
            out.inc("probe.decoder-history")
        out.violations.extend(self.run_history(kind, calls, out, 0.05, rng))
        if out.violations:
            out.inc("violations", len(out.violations))
        if index % 400 == 0:
            out.sample = {"run_index": index, "instance": kind,
                          "calls": [json.dumps(c)[:160] for c in calls[:4]]}
        return out

    def execute(self, case):
        calls = case["calls"]
        if case.get("cold"):
            inst = make_instance(case["kind"])
            vs = []
            for i, call in enumerate(calls):
                got = perform(inst, case["kind"], call)
                if i == len(calls) - 1:
                    cold = cold_result(case["kind"], call)
                    if core.tuplify(core.listify(got)) != cold:
                        vs.append(Violation(
                            "differs-from-cold-process", "%s vs %s" % (
                                str(got)[:200], str(cold)[:200]), case,
                            raw_sig="differs-from-cold|%s" %
                            role(case["kind"])))
            return vs
        return self.run_history(case["kind"], calls)

    def reductions(self, case):
        calls = case["calls"]
        for i in range(len(calls) - 2, -1, -1):
            yield dict(case, calls=calls[:i] + calls[i + 1:])
        for i, c in enumerate(calls):
            if "text" in c and len(c["text"]) > 10 and "plan" not in c:
                t = c["text"]
                for cut in (len(t) // 2, len(t) - len(t) // 4):
                    yield dict(case, calls=calls[:i] + [dict(c, text=t[:cut])]
                               + calls[i + 1:])
                lines = t.split("\n")
                for j in range(len(lines)):
                    yield dict(case, calls=calls[:i] + [dict(
                        c, text="\n".join(lines[:j] + lines[j + 1:]))] +
                        calls[i + 1:])

    def signature(self, case, v):
        return v.raw_sig


PROP = C16()
