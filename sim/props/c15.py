"""C15 - strict dialects enforce their character set; the default accepts
all.

Engine E1 with one fault kind: a single corrupted stored character
(inserted or replacing one) at position p with code point c in a small
label that has every position class (parameter name, unquoted value, quoted
string, comment, units expression, between statements, inside a block,
inside the END keyword, directly after END).

Oracle: an independent table written from the specifications - PVL:
{9..13} U [32,126] U [160,255]; ODL and PDS3: [0,127].  c outside the
table and p before the end of the END statement, strict grammar: the load
must raise LexerError e with e.doc == text, 0 <= e.pos <= len(text),
lineno/colno as documented, and locality start <= e.pos <= p + 1.  Default
grammar, p inside a quoted string (c not a quote, grammar white space or
'-'): the load succeeds and the decoded string contains c at that place.
Run 0 additionally compares the table with grammar.char_allowed for all
1,114,112 code points x 4 grammars (an enumeration that calibrates the
fault alphabet).
"""
from .. import core, dialects
from ..core import Property, RunOut, Violation

MAXCP = 0x110000
BOUNDARY = [0, 8, 9, 10, 11, 12, 13, 14, 31, 32, 126, 127, 128, 159, 160,
            255, 256, 0x7FF, 0x800, 0xD7FF, 0xD800, 0xDFFF, 0xE000, 0xFFFF,
            0x10000, 0x10FFFF, 0x85, 0x2028, 0xA0, 0x1F, 0x1C, 0x7E, 0x7F,
            0x80, 0x9F, 0xFF, 0x100, 0xFEFF, 0xFFFE, 0x200B]


def spec_allowed(config, c):
    """The specifications' character sets, written independently of pvl."""
    if config == "PVL":
        return (9 <= c <= 13) or (32 <= c <= 126) or (160 <= c <= 255)
    if config in ("ODL", "PDS3"):
        return 0 <= c <= 127
    return True


def build_label(rng):
    """-> (segments) where a segment is (position class, text)."""
    nm = lambda: rng.choice(["A", "Ab", "X_1", "LINES", "q9"])
    ident = rng.choice(["IDENT", "abc", "V_2"])
    q = rng.choice(['"', "'"])
    # line ends: LF, CR LF, and (rarely) a lone CR - white space in every
    # grammar, but only LF counts as a line for LexerError.lineno/colno
    nl = rng.choice(["\n", "\n", "\n", "\r\n", "\r\n", "\r", "\n\r"])
    # delimited tokens also come in multi-line form: the error position
    # arithmetic has to cope with a lexeme that spans lines
    qs = rng.choice(["s", "two words", "x=1", "q(1,2)",
                     "line one" + nl + "  line two",
                     "a" + nl + nl + "b" + nl + "c"])
    segs = []
    if rng.random() < 0.15:
        # dash-continued lines before everything else
        for _ in range(rng.choice([1, 2])):
            segs += [("name", "DASHED"), ("between", " = "),
                     ("quoted", '"abc-' + nl + '     def"'), ("between", nl)]
    if rng.random() < 0.5:
        segs += [("comment", rng.choice(["/* head */", "/* two" + nl +
                                         "   lines */"])),
                 ("between", nl)]
    segs += [("name", nm()), ("between", " "), ("eq", "="), ("between", " "),
             ("unquoted", ident), ("between", nl)]
    segs += [("name", nm()), ("between", " = "),
             ("quoted", q + qs + q), ("between", " "),
             ("comment", rng.choice(["/* c */", "/* c" + nl + " d" + nl +
                                     " e */"])), ("between", nl)]
    segs += [("name", nm()), ("between", "="), ("unquoted", "12"),
             ("between", " "),
             ("units", rng.choice(["<m/s>", "<m/s>", "< m" + nl + " / s >"])),
             ("between", nl)]
    if rng.random() < 0.7:
        kw = rng.choice(["GROUP", "OBJECT"])
        segs += [("keyword", kw), ("between", " = "), ("name", "g"),
                 ("between", nl + "  "),
                 ("name-in-block", nm()), ("between", " = "),
                 ("quoted-in-block", q + qs + q), ("between", nl),
                 ("keyword", "END_" + kw), ("between", nl)]
    endmode = rng.random()
    if endmode < 0.8:
        segs += [("END", "END")]
        tail = rng.random()
        if tail < 0.5:
            segs += [("afterEND", nl)]
        elif tail < 0.8:
            segs += [("afterEND", " "), ("afterEND", "image data")]
    return segs


def tiny_label(rng):
    q = rng.choice(['"', "'"])
    segs = [("name", "A"), ("between", " "), ("eq", "="), ("between", " "),
            ("quoted", q + "s t" + q), ("between", " "),
            ("comment", "/* c */"), ("between", "\n"),
            ("name", "B"), ("between", "="), ("unquoted", "12"),
            ("between", " "), ("units", "<m>"), ("between", "\n"),
            ("name", "C"), ("between", " = "), ("unquoted", "v1"),
            ("between", "\n"),
            ("END", "END"), ("afterEND", "\n")]
    if rng.random() < 0.3:
        segs = segs[:-2]
    return segs


def layout(segs):
    """-> (text, [(class, start, end)])"""
    pos = 0
    spans = []
    parts = []
    for cls, s in segs:
        spans.append((cls, pos, pos + len(s)))
        parts.append(s)
        pos += len(s)
    return "".join(parts), spans


class C15(Property):
    ID = "C15"
    RUNS = {"quick": 2400, "thorough": 69632}
    CHUNK = 40
    CP_PER_RUN = 16     # thorough: 69632 * 16 == 1,114,112 code points
    RULE = ("One run = one small generated label with every position class "
            "and 30 single-character corruptions (insert or replace at a "
            "seeded position of a seeded class; code point from a boundary "
            "set or uniformly random over 0..0x10FFFF), each loaded with the "
            "strict PVL, ODL and PDS3 dialects - selected through an explicit "
            "parser, or through pvl.loads(grammar=), (decoder=) or both - when the code point is outside "
            "that dialect's specification table, and with the default "
            "loader when it sits inside a quoted string.  Thorough tier: run "
            "i additionally injects the 16 code points 16i..16i+15, so every "
            "one of the 1,114,112 code points is injected at least once per "
            "strict grammar (the fault alphabet is enumerated completely; "
            "positions are sampled).  Run 0 compares the table with "
            "char_allowed for all code points x 4 grammars.  evaluations = "
            "loads + table comparisons.  A load is non-trivial when the "
            "corrupted character lies before the END statement and after "
            "the first complete statement; distinct = distinct event-log "
            "digests of runs containing such loads."
            " Labels also use lone CR and LF CR line ends; the dialect is selected through parser=, grammar=, decoder=, both, both of different dialects, bytes or a binary stream; extra faults at the very first character and right after a dash-continued line end.")
    ASSUMPTIONS = [
        "the permitted sets are those quoted in the property text (PVL: "
        "ISO 8859-1 without 0-8, 14-31, 127-159; ODL/PDS3: 7-bit ASCII)",
        "locality bound: start-of-token <= e.pos <= p + 1, where the token "
        "is the generator's token containing or immediately preceding p",
    ]
    COMPONENTS_REAL = ["pvl.lexer.lexer", "grammar.char_allowed of PVL/ODL/"
                       "PDS/Omni grammars", "LexerError position arithmetic",
                       "PVLParser/ODLParser/OmniParser"]
    COMPONENTS_STUB = ["none"]
    REQUIRED_PROBES = ["probe.class:name", "probe.class:unquoted",
                       "probe.class:quoted", "probe.class:comment",
                       "probe.class:units", "probe.class:between",
                       "probe.class:quoted-in-block", "probe.class:END",
                       "probe.class:afterEND", "probe.default-transparent",
                       "probe.table-compared",
                       "probe.fault-on-later-line-of-multiline-token",
                       "probe.route:grammar", "probe.route:decoder",
                       "probe.route:both", "probe.route:bytes",
                       "probe.route:binary-stream", "probe.route:mismatch",
                       "probe.fault-at-first-character"]

    # ---- one explicit case
    def execute_case(self, case, out=None):
        """case: {"segs": [[cls, text]...], "p": int, "c": int,
                  "mode": "insert"|"replace", "configs": [...]}"""
        segs = [tuple(s) for s in case["segs"]]
        text0, spans = layout(segs)
        p, c, mode = case["p"], case["c"], case["mode"]
        ch = chr(c)
        if mode == "insert":
            text = text0[:p] + ch + text0[p:]
        else:
            text = text0[:p] + ch + text0[p + 1:]
        # the segment that contains p (replace) or that p falls into/after
        seg = None
        for cls, a, b in spans:
            if a <= p < b or (mode == "insert" and a < p <= b and seg is None):
                seg = (cls, a, b)
                if a <= p < b:
                    break
        if seg is None:
            seg = spans[-1] if spans else ("between", 0, 0)
        cls, a, b = seg
        # start of the token containing or immediately preceding p
        tok_start = 0
        for c2, a2, b2 in spans:
            if c2 not in ("between", "afterEND") and a2 <= p:
                tok_start = a2
        end_span = [s for s in spans if s[0] == "END"]
        if end_span:
            ea, eb = end_span[0][1], end_span[0][2]
            before_end = p < eb if mode == "replace" else p < eb
        else:
            before_end = True
        vs = []

        def viol(kind, detail, config):
            vs.append(Violation(kind, "%s U+%04X %s at %d (%s): %s; text=%r"
                                % (config, c, mode, p, cls, detail,
                                   text[:120]),
                                dict(case, configs=[config]),
                                raw_sig="%s|%s|%s" % (kind, config, cls)))

        for config in case["configs"]:
            if config in dialects.STRICT:
                if spec_allowed(config, c) or not before_end:
                    if out is not None:
                        out.inc("skipped.no-obligation")
                    continue
                route = case.get("route", "parser")
                o = dialects.load_route(config, text, route)
                if out is not None:
                    out.evals += 1
                    out.log.ev(config, route, c, p, mode, o.brief())
                    out.inc("fault.char-%s" % mode)
                    out.inc("probe.route:" + route)
                if o.kind != "LexerError":
                    viol("not-rejected" if o.kind == "ok" else
                         "wrong-exit", "load ended in %s%s" % (
                             o.brief(), (" = " + core.short(o.value))
                             if o.kind == "ok" else ""), config)
                    continue
                e = o.exc
                # the permissive parser class (used when the dialect is
                # chosen through grammar= / decoder=) parses the text with
                # dash continuations removed; the error's attributes must
                # be consistent with the document it carries
                import re
                doc = getattr(e, "doc", None)
                nodash = re.sub("-[\n\r\f][ \t\n\r\v\f]*", "", text)
                ok_doc = doc == text or (
                    route in ("grammar", "decoder", "both", "mismatch")
                    and doc == nodash)
                pos = getattr(e, "pos", None)
                if not ok_doc:
                    viol("error-doc", "e.doc is not the text", config)
                elif not (isinstance(pos, int) and 0 <= pos <= len(doc)):
                    viol("error-pos", "e.pos=%r outside 0..%d" %
                         (pos, len(doc)), config)
                else:
                    ln = doc.count("\n", 0, pos) + 1
                    col = pos - doc.rfind("\n", 0, pos)
                    if e.lineno != ln or e.colno != col:
                        viol("error-line-col", "pos=%d lineno=%r colno=%r, "
                             "documented definitions give %d/%d" %
                             (pos, e.lineno, e.colno, ln, col), config)
                    elif doc == text and not (tok_start <= pos <= p + 1):
                        viol("error-locality", "e.pos=%d not within [%d, "
                             "%d]" % (pos, tok_start, p + 1), config)
            else:   # default grammar: transparency inside quoted strings
                if not cls.startswith("quoted") or ch in "\"'- \t\n\r\f\v":
                    continue
                if "-" in text0[a:b]:
                    continue    # a dash-continued string is C08/C02 ground
                if not (a < p < b) and not (mode == "insert" and a < p < b):
                    continue
                if mode == "replace" and not (a < p < b - 1):
                    continue
                o = dialects.load("default", text)
                if out is not None:
                    out.evals += 1
                    out.log.ev("default", c, p, mode, o.brief())
                    out.inc("probe.default-transparent")
                if o.kind != "ok":
                    viol("default-rejected", "default loader ended in %s" %
                         o.brief(), "default")
                    continue
                inner = text0[a + 1:b - 1]
                k = p - (a + 1)
                want = (inner[:k] + ch + inner[k:]) if mode == "insert" \
                    else (inner[:k] + ch + inner[k + 1:])
                # the default decoder folds the grammar's six white-space
                # characters (and only those) inside strings
                import re
                want = re.sub("[ \t\n\r\v\f]+", " ",
                              want.strip(" \t\n\r\v\f"))
                found = [v for v in self.strings(o.value)]
                if want not in found:
                    viol("default-altered", "decoded strings %r do not "
                         "include %r" % (found, want), "default")
        return vs, (before_end and tok_start > 0)

    def strings(self, m):
        from pvl.collections import OrderedMultiDict
        for k, v in list(m):
            if isinstance(v, OrderedMultiDict):
                yield from self.strings(v)
            elif isinstance(v, str):
                yield v

    def table_compare(self, out):
        bad = []
        for config in ("PVL", "ODL", "PDS3", "default"):
            g = dialects.make_grammar(config)
            for c in range(MAXCP):
                if g.char_allowed(chr(c)) != spec_allowed(config, c):
                    bad.append((config, c))
                    if len(bad) > 20:
                        break
            out.evals += MAXCP
        out.inc("probe.table-compared", 4 * MAXCP)
        for config, c in bad[:5]:
            out.violations.append(Violation(
                "table-mismatch", "%s.char_allowed(U+%04X) is %s, the "
                "specification says %s" % (config, c, not spec_allowed(
                    config, c), spec_allowed(config, c)),
                {"table": [config, c]},
                raw_sig="table-mismatch|%s" % config))

    def run(self, rng, index, tier):
        out = RunOut()
        if index == 0:
            self.table_compare(out)
        jobs = []
        segs = build_label(rng)
        text0, spans = layout(segs)
        classes = sorted(set(s[0] for s in spans))
        for _ in range(30):
            cls = rng.choice(classes)
            a, b = rng.choice([(x[1], x[2]) for x in spans if x[0] == cls])
            mode = rng.choice(["insert", "replace"])
            p = rng.randrange(a, b + 1) if mode == "insert" else \
                rng.randrange(a, b)
            c = rng.choice(BOUNDARY) if rng.random() < 0.5 else \
                rng.randrange(MAXCP)
            jobs.append((segs, cls, p, c, mode))
        # faults aimed at the white space right after a dash-continued line
        # end, with code points that Python counts as space but the
        # grammars do not
        for cls0, a, b in spans:
            if cls0 == "quoted" and "-\n" in text0[a:b].replace("\r", ""):
                k = text0.index("-", a) + 1
                while k < b and text0[k] in "\r\n":
                    k += 1
                for _ in range(2):
                    c = rng.choice([0x1c, 0x1d, 0x1e, 0x1f, 0x85, 0xa0,
                                    0x2028, 0x2029, 0x3000, 0x2003, 0x1680])
                    jobs.append((segs, "quoted", min(b - 2, k + rng.choice(
                        [0, 1, 2])), c, rng.choice(["insert", "replace"])))
                out.inc("probe.fault-after-dash-continuation")
                break
        # the very first character of the text (a byte order mark, typically)
        if rng.random() < 0.5:
            jobs.append((segs, spans[0][0], 0,
                         rng.choice([0xFEFF, 0xFEFF, 0xFFFE, 0x7F, 0x80, 0xE9,
                                     0x20AC, 0]), "insert"))
            out.inc("probe.fault-at-first-character")
        if tier == "thorough":
            tsegs = tiny_label(rng)
            t0, tspans = layout(tsegs)
            live = [x for x in tspans if x[0] != "afterEND"]
            for c in range(index * self.CP_PER_RUN,
                           min(MAXCP, (index + 1) * self.CP_PER_RUN)):
                cls, a, b = rng.choice(live)
                mode = rng.choice(["insert", "replace"])
                p = rng.randrange(a, b + 1) if mode == "insert" else \
                    rng.randrange(a, b)
                jobs.append((tsegs, cls, p, c, mode))
                out.inc("probe.codepoint-enumerated")
        for sg, cls, p, c, mode in jobs:
            out.inc("probe.class:" + cls)
            for scls, stext in sg:
                pass
            _t, _sp = layout([tuple(x) for x in sg])
            for scls, a, b in _sp:
                if a <= p < b and scls in ("quoted", "comment", "units",
                                           "quoted-in-block") and \
                        "\n" in _t[a:p]:
                    out.inc("probe.fault-on-later-line-of-multiline-token")
            case = {"segs": [list(s) for s in sg], "p": p, "c": c,
                    "mode": mode,
                    "configs": ["PVL", "ODL", "PDS3", "default"],
                    "route": rng.choice(["parser", "parser", "grammar",
                                         "decoder", "both", "bytes",
                                         "binary-stream", "mismatch"])}
            vs, nt = self.execute_case(case, out)
            out.violations.extend(vs)
            if nt:
                out.nontrivial = True
        if out.violations:
            out.inc("violations", len(out.violations))
        if index % 400 == 0:
            out.sample = {"run_index": index, "label": text0,
                          "faults": [[p, "U+%04X" % c, mode, cls]
                                     for _, cls, p, c, mode in jobs[:5]]}
        return out

    def execute(self, case):
        if "table" in case:
            config, c = case["table"]
            g = dialects.make_grammar(config)
            if g.char_allowed(chr(c)) != spec_allowed(config, c):
                return [Violation("table-mismatch", "%s U+%04X" % (config, c),
                                  case, raw_sig="table-mismatch|%s" % config)]
            return []
        return self.execute_case(case)[0]

    def reductions(self, case):
        if "table" in case:
            return
        segs = case["segs"]
        text0, spans = layout([tuple(s) for s in segs])
        p = case["p"]
        # drop whole segments that do not contain p (keep offsets right)
        for i in range(len(segs) - 1, -1, -1):
            cls, a, b = spans[i]
            if a <= p <= b:
                continue
            ns = segs[:i] + segs[i + 1:]
            np_ = p - (b - a) if b <= p else p
            # the locality oracle presumes an undamaged label that loads
            t2, _ = layout([tuple(x) for x in ns])
            if all(dialects.load(cfg, t2).kind == "ok"
                   for cfg in case.get("configs", ["PVL"])):
                yield dict(case, segs=ns, p=np_)

    def signature(self, case, v):
        return v.raw_sig


PROP = C15()
