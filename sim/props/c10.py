"""C10 - multi-dict list view and mapping view agree after any history.

Engine E3: seeded operation histories (including operations that fail)
on the real containers, stepped side by side with the list-of-pairs model;
every observable is compared after every operation.
"""
import json

from .. import core
from ..core import Property, RunOut, Violation
from ..listmodel import Machine, run_ops
from ..histgen import HistGen, key_state, history_reductions


def op_brief(op):
    name = op[0]
    if name == "pop":
        name = "pop%d" % (len(op) - 2)
    if name in ("insert", "insert_before", "insert_after", "extend",
                "update", "new"):
        form = (op[2] if name in ("extend", "update") else
                op[3] if name in ("insert", "new") else op[4])
        name += ":" + str(form)
    return name


class C10(Property):
    ID = "C10"
    RUNS = {"quick": 60000, "thorough": 2000000}
    CHUNK = 250
    MAXOPS = 40
    RULE = ("One run = one seeded history of 1..40 container operations "
            "(every documented mutator in every call form, failing calls "
            "included) on 1+ containers of the four classes over a <=4 key "
            "alphabet with unique integer or nested-container values; after "
            "every operation every accessor of every live container is "
            "compared with a list-of-pairs model.  evaluations = operations "
            "executed on real containers.  A run is non-trivial when at "
            "least one operation failed (fault) after at least one "
            "successful mutation; distinct = distinct event-log digests "
            "(operation sequence with arguments and outcomes) among those."
            " Argument forms: pairs, tuples, lists, mappings, keyword arguments, other multi-dicts, one-shot iterators, items()-objects, positional and keyword arguments mixed; the three views obtained when a container was created are kept and re-read; what getall() returns is changed by the caller before the container is read again; the class of every container is compared.")
    ASSUMPTIONS = [
        "the reading of 'as documented' is the list-of-pairs model in "
        "sim/listmodel.py (assignment replaces first and drops later, "
        "insert places pairs contiguously at the index, pop() removes the "
        "last pair, pop(k)/popall(k) return the first value and drop all)",
        "update() with another multi-dict as its argument is not generated "
        "(MutableMapping.update iterates a Mapping's keys, which for this "
        "container are pairs; the property does not fix that call form)",
        "views are indexed with integers only (slices on views are not "
        "promised by the property)",
    ]
    COMPONENTS_REAL = ["pvl.collections.OrderedMultiDict/PVLModule/PVLGroup/"
                       "PVLObject and their KeysView/ValuesView/ItemsView"]
    COMPONENTS_STUB = ["none (the simulator is the only caller)"]
    REQUIRED_PROBES = ["probe.failed-op-after-progress",
                       "probe.setitem-dropped-later-duplicates",
                       "probe.pop-emptied-a-key",
                       "probe.insert-negative-multi",
                       "probe.nested-mutated",
                       "probe.sparse-accessor-checks"]
    machine_cls = Machine
    extra_ops = ()

    def make_gen(self, rng, m):
        return HistGen(rng, m, extra_ops=self.extra_ops)

    def probes(self, out, m, op):
        """Reach probes, computed from the model *before* the op."""
        name = op[0]
        if len(op) < 2 or op[1] not in m.reg:
            return
        mc = m.reg[op[1]][1]
        if name in ("setitem", "delitem", "pop", "popall", "setdefault",
                    "discard", "insert_before", "insert_after") and \
                len(op) > 2 and isinstance(op[2], str):
            ks = key_state(mc, op[2])
            out.inc("probe.%s/%s" % (op_brief(op).split(":")[0], ks))
            if name == "setitem" and ks.startswith("dup"):
                out.inc("probe.setitem-dropped-later-duplicates")
        if name in ("pop", "popitem") and len(op) == 2 and mc.items:
            if len(mc.positions(mc.items[-1][0])) == 1:
                out.inc("probe.pop-emptied-a-key")
        if name == "insert" and isinstance(op[2], int) and op[2] < 0 and \
                isinstance(op[4], list) and len(op[4]) > 1 and \
                op[3] != "mapping":
            out.inc("probe.insert-negative-multi")
        if op[1] not in self.cur_tops:
            out.inc("probe.nested-mutated")

    def run(self, rng, index, tier):
        out = RunOut()
        period = rng.choice([1, 1, 1, 2, 3, 5, 8, 1000])
        m = self.machine_cls(2, period)
        gen = self.make_gen(rng, m)
        nops = rng.randint(1, self.MAXOPS)
        ops = []
        progressed = False
        for _ in range(nops):
            op = gen.next_op()
            self.cur_tops = gen.tops
            self.probes(out, m, op)
            ops.append(op)
            status = m.apply(op)
            out.evals += 1
            out.log.ev("op", json.dumps(op, sort_keys=True), status)
            out.inc("op." + op_brief(op))
            if status == "failed-op":
                out.inc("fault.failed-operation:" + op_brief(op))
                if progressed:
                    out.nontrivial = True
                    out.inc("probe.failed-op-after-progress")
            elif status == "ok" and op[0] not in ("new",):
                progressed = True
            if m.problems:
                break
        if not m.problems and period > 1:
            m.check_all()       # full comparison at the end of the history
        if period > 1:
            out.inc("probe.sparse-accessor-checks")
        if m.problems:
            cls, detail, opi = m.problems[0]
            out.violations.append(Violation(
                cls, detail, {"ops": ops, "check_period": period},
                raw_sig="%s|%s" % (cls, op_brief(ops[opi]) if 0 <= opi < len(
                    ops) else "?")))
            out.inc("violations")
        if index % 5000 == 0:
            out.sample = {"run_index": index, "ops": ops[:12],
                          "ops_total": len(ops)}
        self.finish(out, m)
        return out

    def finish(self, out, m):
        pass

    def execute(self, case):
        period = case.get("check_period", 1)
        m = run_ops(case["ops"], 2, self.machine_cls, period)
        vs = []
        if m.problems:
            cls, detail, opi = m.problems[0]
            ops = case["ops"]
            opi = min(opi, len(ops) - 1)
            vs.append(Violation(cls, detail, {"ops": ops[:opi + 1] if
                                              period == 1 else ops,
                                              "check_period": period},
                                raw_sig="%s|%s" % (cls, op_brief(ops[opi]))))
        return vs

    def reductions(self, case):
        period = case.get("check_period", 1)
        if period != 1:
            yield {"ops": case["ops"], "check_period": 1}
        for ops in history_reductions(case["ops"]):
            yield {"ops": ops, "check_period": period}

    def signature(self, case, v):
        ops = case["ops"]
        last = ops[-1] if ops else ["?"]
        # discriminating condition of the first diverging operation
        m = run_ops(ops[:-1], 0, self.machine_cls)
        ks = ""
        if len(last) > 2 and isinstance(last[2], str) and \
                last[1] in m.reg:
            ks = "/" + key_state(m.reg[last[1]][1], last[2])
        return "%s|%s%s" % (v.cls, op_brief(last), ks)


PROP = C10()
