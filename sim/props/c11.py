"""C11 - copies of a container are equal, independent and leave the original
intact.

Engine E3: the C10 history machine with several tracked containers and the
extra operation copy (m.copy(), copy.copy, copy.deepcopy, pickle protocols
0..5).  The model copies share nested model objects exactly as the mechanism
is specified to, so aliasing the mechanism should not have shows up as a
divergence on the *other* side at the first later mutation.
"""
from .c10 import C10
from ..histgen import HistGen


class Gen11(HistGen):
    """Values as a loaded label has them: mostly unique integers, but also
    strings, reals, None, booleans, lists, sets, dates, quantities and
    empty-value placeholders."""

    def __init__(self, rng, machine):
        super().__init__(rng, machine, extra_ops=("copy",),
                         scalar=self.scalar11)
        self.p_rich = rng.choice([0.0, 0.1, 0.3])

    def scalar11(self):
        r = self.rng
        if r.random() >= self.p_rich:
            return self.unique_int()
        return r.choice([
            {"s": "two words"}, {"s": ""}, {"f": 1.5}, {"none": 1}, True,
            {"list": [self.unique_int(), {"s": "x"}]},
            {"set": [self.unique_int(), {"s": "SYM"}]},
            {"dt": ["date", "2001-01-31"]},
            {"dt": ["datetime", "2010-05-06T07:08:09+00:00"]},
            {"dt": ["time", "01:02:03.000004"]},
            {"q": [self.unique_int(), "km/s"]},
            {"q": [{"list": [1, 2, 3]}, "pixel"]},
            {"list": [{"list": [{"f": 1.5}, {"f": 2.5}]}, {"s": "z"}]},
            {"empty": r.randint(1, 99)}, {"empty": r.randint(1, 99)}])


class C11(C10):
    ID = "C11"

    def make_gen(self, rng, m):
        return Gen11(rng, m)

    RUNS = {"quick": 40000, "thorough": 1500000}
    extra_ops = ("copy",)
    RULE = ("One run = one seeded history (1..40 operations) of the C10 "
            "machine plus copy operations by m.copy(), copy.copy, "
            "copy.deepcopy, pickle protocols 0-5 in process and (4% of copies) "
            "a pickle round trip through a second interpreter started with "
            "another PYTHONHASHSEED, on nested containers "
            "with duplicate keys of all four classes; mutations keep "
            "arriving on originals, copies and their nested containers. "
            "At the copy: equal both ways, same class at every level, "
            "original's canonical form unchanged, nested objects shared "
            "(shallow) or distinct with sharing preserved (deep/pickle). "
            "Afterwards every tracked container is compared with its own "
            "model after every operation.  evaluations = operations on real "
            "containers.  Non-trivial run = at least one copy followed by a "
            "successful mutation of the original, the copy or a nested "
            "container of either; distinct = distinct event-log digests "
            "among those."
            " 15% of the copies are taken of containers that carry instance attributes (as every loaded module does); a copy that cannot be read is a violation; user subclasses and falsy values are in the pools.")
    ASSUMPTIONS = C10.ASSUMPTIONS + [
        "shallow mechanisms (m.copy(), copy.copy) are required to share "
        "nested containers with the original; deep mechanisms (deepcopy, "
        "pickle) are required to share nothing mutable with it"]
    REQUIRED_PROBES = ["probe.copy:method", "probe.copy:copy.copy",
                       "probe.copy:deepcopy", "probe.copy:pickle2",
                       "probe.restart-in-other-interpreter",
                       "probe.mutation-after-copy",
                       "probe.nested-mutation-after-copy"]

    def probes(self, out, m, op):
        super().probes(out, m, op)
        if op[0] == "copy":
            out.inc("probe.copy:" + op[2])
            if op[2].startswith("xpickle"):
                out.inc("probe.restart-in-other-interpreter")
                out.inc("fault.restart-other-interpreter-other-hashseed")
            out.inc("fault.restart-from-serialised-state"
                    if op[2].startswith("pickle") else "fault.none-copy")
            self.copied = True
        elif getattr(self, "copied", False) and op[0] != "new" and \
                len(op) > 1 and op[1] in m.reg:
            out.inc("probe.mutation-after-copy")
            out.nontrivial = True
            if op[1] not in self.cur_tops:
                out.inc("probe.nested-mutation-after-copy")

    def run(self, rng, index, tier):
        self.copied = False
        out = super().run(rng, index, tier)
        if not self.copied:
            out.nontrivial = False
        return out


PROP = C11()
