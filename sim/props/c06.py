"""C06 - loaders terminate and fail only with the documented error types.

Engine E1.  Workload: a generated label or a real label from tests/data.
Faults (swarm-selected per run): truncation at character offsets (EOF = the
crash of this world), character insert/delete/replace from a
PVL-significant alphabet, all C05 token faults at text and channel level,
channel EOF at token indices, value loss, garbage after END.

Oracle - an invariant on every execution: the load ends, within the
deterministic step budget and the channel re-delivery bound, in exactly one
of {module, LexerError, ParseError}.
"""
import glob
import os

from .. import core, gen, chan, dialects, e1
from ..core import Property, RunOut, Violation
from .c05 import C05, FAMILY
FAMILY = dict(FAMILY, new="tolerant-new-containers")

ALPHABET = list("=(){}<>,;\"'#/*-+.:_ \t\n\r\f\v\0") + list("0123456789") + \
    list("eETZ") + ["END", "GROUP", "END_OBJECT", "16#", "-\n", "/*", "*/",
                    "END_GROUP", "OBJECT", "= =", "é", "€", "NULL",
                    "<", ">", "2001-01-0", "T12:00", "+1", "#", "&",
                    # empty delimited things
                    "<>", "< >", "<\n>", "()", "{}", "(,)", '""', "''",
                    "/**/", "= <m>", "5 <>",
                    # tokens that read like format templates
                    '"{}.img"', "'{stem}'", " <{u}", '"{0.x}"', "{x} ",
                    '"%s %d"', "/* {x} */"]

_CORPUS = None


def corpus():
    global _CORPUS
    if _CORPUS is None:
        out = []
        root = os.path.join(core.REPO, "tests", "data")
        files = sorted(glob.glob(os.path.join(root, "pds3", "*.lbl")) +
                       glob.glob(os.path.join(root, "pds3", "broken", "*")) +
                       glob.glob(os.path.join(root, "*.txt")) +
                       glob.glob(os.path.join(root, "*.lbl")))
        for f in files:
            try:
                with open(f, "rb") as fh:
                    raw = fh.read(6000)
            except OSError:
                continue
            try:
                txt = raw.decode("utf-8")
            except UnicodeDecodeError:
                txt = raw.decode("latin-1")
            out.append((os.path.relpath(f, root), txt))
        _CORPUS = out
    return _CORPUS


class C06(Property):
    ID = "C06"
    RUNS = {"quick": 2400, "thorough": 80000}
    CHUNK = 20
    RULE = ("One run = one workload label (generated - half of them with "
            "the extended vocabulary: signs, both based-integer sign "
            "positions, zone offsets, leap seconds, sets holding sets and "
            "sequences, units on anything, multi-line and dash-continued "
            "strings, odd unquoted strings, empty blocks -, or a label of "
            "tests/data cut to <=700 characters) in one of the five parser "
            "configurations, then 40-120 damaged variants: truncation at "
            "sampled (in 1 run of 6: every) character offsets, 1-3 character "
            "insertions/deletions/replacements from a PVL-significant "
            "alphabet, token faults (drop/dup/swap/replace/EOF) at text and "
            "channel level, channel EOF at every token index, value loss, "
            "garbage after END.  Invariant per load: it ends within "
            "4000*(len+50) pvl line events and 5000 channel re-deliveries in "
            "a module, LexerError or ParseError.  evaluations = loads.  "
            "A load is non-trivial when a fault fired before END after at "
            "least one complete statement; distinct_nontrivial = distinct "
            "event-log digests of runs containing such loads."
            " Also generated: pvl.new.loads as a sixth configuration (10%), the caller's container classes or the decoders' real_cls/quantity_cls options (10%), bytes cut inside multi-byte characters, flat collections of 1200-2500 items (1%), an odd character as the very last character, empty delimited things and template-like tokens in the alphabet.")
    ASSUMPTIONS = [
        "ordinary nesting depth: generated labels nest blocks <=3 and "
        "collections <=2 deep; RecursionError is not provoked deliberately",
        "termination is judged by a deterministic budget of 4000 line "
        "events per input character (observed cost is ~100) plus a "
        "re-delivery bound on the token channel, not by wall clock",
    ]
    COMPONENTS_REAL = ["pvl.lexer.lexer", "PVLParser/ODLParser/OmniParser",
                       "all decoders", "pvl.loads"]
    COMPONENTS_STUB = ["SimLexer interposer (channel-level cases only)"]
    REQUIRED_PROBES = ["probe.eof-inside-block", "probe.eof-inside-collection",
                       "probe.corpus-label", "probe.generated-label",
                       "probe.outcome-ParseError", "probe.outcome-LexerError",
                       "probe.outcome-ok-after-fault",
                       "probe.extended-vocabulary",
                       "probe.cut-inside-multibyte-character",
                       "probe.long-flat-collection",
                       "probe.odd-character-at-end-of-text"]

    def check(self, out, case, nontrivial=False):
        config = case["config"]
        plan = case.get("plan")
        st = None
        lexer_fn = None
        if plan is not None:
            st = chan.ChanStats()
            lexer_fn = chan.make_lexer_fn(plan, st)
        if "bytes_hex" in case:
            # the label handed over as bytes (a file cut at a byte offset)
            o = dialects.load(config, bytes.fromhex(case["bytes_hex"]),
                              lexer_fn)
        else:
            o = dialects.load(config, case["text"], lexer_fn,
                              custom=case.get("custom", False))
        if out is not None:
            out.evals += 1
            out.inc("outcome." + (o.kind if o.documented() else o.brief()))
            out.inc("probe.outcome-" + o.kind) if o.kind != "ok" else None
            if o.kind == "ok" and case.get("faulted"):
                out.inc("probe.outcome-ok-after-fault")
            out.log.ev(config, "chan" if plan is not None else "text",
                       o.brief())
            if st is not None:
                for kind, _ in st.fired:
                    out.inc("fault.chan-" + kind)
                out.inc("logical.chan-events",
                        st.fresh + st.sends + st.throws)
                if st.max_pushback_run >= 3:
                    out.inc("probe.pushback-depth>=3")
        if o.documented():
            return []
        if o.kind == "exc":
            cls = "undocumented-exception"
            what = "%s@%s" % (type(o.exc).__name__, o.where)
            detail = "%s: %s raised %s: %s" % (
                config, "load", type(o.exc).__name__, str(o.exc)[:200])
        elif o.kind == "stall":
            cls = "stall"
            what = "stall"
            detail = "%s: load did not finish within the step budget " \
                "(stopped at %s after %d line events)" % (
                    config, o.where, o.steps)
        else:
            cls = "undocumented-exit"
            what = o.brief()
            detail = "%s: %s" % (config, o.brief())
        c = {k: v for k, v in case.items() if k != "faulted"}
        return [Violation(cls, detail + "; text=%r" % case["text"][:200], c,
                          raw_sig="%s|%s|%s" % (cls, FAMILY[config], what))]

    def run(self, rng, index, tier):
        out = RunOut()
        config = rng.choice(dialects.CONFIGS)
        use_new = rng.random() < 0.1
        toks = None
        if rng.random() < 0.3 and corpus():
            name, text = rng.choice(corpus())
            if len(text) > 700:
                cut = text.rfind("\n", 0, rng.randint(200, 700))
                text = text[:cut + 1 if cut > 0 else 700]
                if rng.random() < 0.5:
                    text += "END\n"
            out.inc("probe.corpus-label")
            source = name
        else:
            ext = rng.random() < 0.5
            stmts, toks, text, style = gen.render_doc(
                rng, config, max_stmts=rng.choice([1, 2, 3, 4, 6, 8]),
                extended=ext)
            out.inc("probe.generated-label")
            if rng.random() < (0.6 if use_new else 0.25) and text.isascii():
                # make sure non-ASCII labels are common enough
                extra = rng.choice(['NOTE = "caf\u00e9 \u20ac"\n',
                                    "/* \u00b0 \u65e5\u672c */\n",
                                    "S = '\U0001d11e'\n"])
                text = extra + text
                toks = None     # token positions no longer apply
            if ext:
                out.inc("probe.extended-vocabulary")
            source = "generated-extended" if ext else "generated"
        out.log.ev("label", config, source, text)
        n = len(text)
        kinds = [k for k in ("trunc", "chars", "tokens", "chan-eof",
                             "value-loss", "garbage") if rng.random() < 0.6] \
            or ["trunc"]
        if use_new and "trunc" not in kinds and not text.isascii():
            kinds.append("trunc")     # pvl.new has its own bytes path

        custom = (not use_new) and rng.random() < 0.1 and \
            rng.choice([True, "plain", "decimal"])

        def do(case, nontrivial=True):
            if custom:
                case = dict(case, custom=custom)
            if use_new and "plan" not in case:
                case = dict(case, config="new")
            vs = self.check(out, case)
            out.violations.extend(vs)
            if nontrivial:
                out.nontrivial = True

        do({"config": config, "text": text}, False)       # control

        if "trunc" in kinds:
            if rng.random() < 1 / 6 and n <= 400:
                offs = range(n)
            else:
                offs = set(rng.randrange(n + 1) for _ in range(20))
                # places with in-flight state: inside collections, right
                # after '=', around block begin/end statements
                hot = [i for i, ch in enumerate(text) if ch in "({,=<"]
                if toks is not None:
                    hot += [t.end for t in toks if t.end is not None and
                            t.role in ("begin", "begin-eq", "block-name",
                                       "end-kw", "end-eq", "open", "comma",
                                       "element")]
                for _ in range(20):
                    if hot:
                        offs.add(min(n, rng.choice(hot) +
                                     rng.choice([0, 1, 1, 2, 3])))
                offs = sorted(offs)
            for k in offs:
                out.inc("fault.text-truncate")
                t = text[:k]
                if t.count("(") > t.count(")") or t.count("{") > t.count("}"):
                    out.inc("probe.eof-inside-collection")
                if toks is not None:
                    d = 0
                    for tk in toks:
                        if tk.end is not None and tk.end <= k:
                            d = tk.depth
                    if d:
                        out.inc("probe.eof-inside-block")
                do({"config": config, "text": t, "faulted": True}, k > 10)
        if rng.random() < 0.01:
            # a long flat Sequence or Set (a table written as one value):
            # many items, nesting depth 1
            nitems = rng.choice([1200, 1500, 2500])
            op, cl = rng.choice(["()", "{}"])
            long_text = "TABLE = " + op + ", ".join(
                str(i) for i in range(nitems)) + cl + "\nEND\n"
            out.inc("probe.long-flat-collection")
            do({"config": config, "text": long_text})
            cut = rng.randrange(len(long_text) // 2, len(long_text) - 6)
            out.inc("fault.text-truncate")
            do({"config": config, "text": long_text[:cut], "faulted": True})
        if "trunc" in kinds and not text.isascii():
            data = text.encode()
            # byte offsets inside multi-byte characters are the point
            inside = [i for i, b in enumerate(data) if 0x80 <= b < 0xC0]
            cuts = set(rng.randrange(len(data) + 1) for _ in range(15))
            cuts.update(rng.sample(inside, min(10, len(inside))))
            for k in sorted(cuts):
                out.inc("fault.bytes-truncate")
                try:
                    data[:k].decode()
                except UnicodeDecodeError:
                    out.inc("probe.cut-inside-multibyte-character")
                do({"config": config, "text": text[:k],
                    "bytes_hex": data[:k].hex(), "faulted": True}, k > 10)
        if "chars" in kinds:
            # the very last character of the text is one that some grammar
            # does not allow (an error raised with nothing after it)
            for a in rng.sample(["\0", "\x01", "\x7f", "\x85", "\u00e9",
                                 "\u20ac", "\U0001d11e", "\ud800"], 3):
                out.inc("fault.char-ins")
                out.inc("probe.odd-character-at-end-of-text")
                do({"config": config, "text": text.rstrip() + a,
                    "faulted": True})
            for _ in range(rng.randint(10, 40)):
                t = text
                for _ in range(rng.choice([1, 1, 2, 3])):
                    p = rng.randrange(len(t) + 1)
                    op = rng.choice(["ins", "del", "rep"])
                    a = rng.choice(ALPHABET)
                    if op == "ins":
                        t = t[:p] + a + t[p:]
                    elif op == "del":
                        t = t[:p] + t[p + rng.choice([1, 1, 2, 5]):]
                    else:
                        t = t[:p] + a + t[p + 1:]
                    out.inc("fault.char-" + op)
                do({"config": config, "text": t, "faulted": True})
        if toks is not None:
            endi = e1.end_index(toks)
            live = len(toks) if endi is None else endi
            tj = None
            if "tokens" in kinds and live:
                for _ in range(rng.randint(5, 15)):
                    plan = e1.random_plan(
                        rng, toks[:live], rng.choice([1, 2, 3]),
                        ["drop", "dup", "swap", "replace", "eof"])
                    if not plan:
                        continue
                    for f in plan:
                        out.inc("fault.text-" + f["kind"])
                    dt, dtext = gen.render_tokens(
                        rng, config, e1.apply_plan(toks, plan),
                        always_separate=rng.random() < 0.7)
                    do({"config": config, "text": dtext, "faulted": True})
                    do({"config": config, "text": text, "plan": plan,
                        "faulted": True})
            if "chan-eof" in kinds:
                for k in range(live + 1):
                    do({"config": config, "text": text,
                        "plan": [{"kind": "eof", "at": k}], "faulted": True},
                       k > 3)
            if "value-loss" in kinds:
                stmts_ids = sorted(set(t.stmt for t in toks
                                       if t.role in ("value", "element",
                                                     "open")))
                for _ in range(min(6, len(stmts_ids))):
                    lose = set(rng.sample(stmts_ids, rng.randint(
                        1, min(3, len(stmts_ids)))))
                    plan = [{"kind": "drop", "at": i}
                            for i, t in enumerate(toks)
                            if t.stmt in lose and t.role in (
                                "value", "element", "open", "closer", "comma",
                                "units")]
                    out.inc("fault.value-loss", len(lose))
                    dt, dtext = gen.render_tokens(
                        rng, config, e1.apply_plan(toks, plan),
                        always_separate=False)
                    do({"config": config, "text": dtext, "faulted": True})
                    do({"config": config, "text": text, "plan": plan,
                        "faulted": True})
        if "garbage" in kinds:
            for _ in range(4):
                tail = "".join(rng.choice(ALPHABET + ["x", "Q", "ÿ"])
                               for _ in range(rng.randint(1, 60)))
                sep = rng.choice(["\n", " ", ";", "\r\n", ""])
                base = text if "END" in text.upper() else text + "\nEND"
                out.inc("fault.garbage-after-END")
                do({"config": config, "text": base + sep + tail,
                    "faulted": True}, False)
        if out.violations:
            out.inc("violations", len(out.violations))
        if index % 200 == 0:
            out.sample = {"run_index": index, "config": config,
                          "source": source, "text": text[:300],
                          "fault_kinds": kinds}
        return out

    def execute(self, case):
        return self.check(None, case)

    def reductions(self, case):
        text = case["text"]
        n = len(text)
        plan = case.get("plan")
        if plan is not None:
            for i in range(len(plan)):
                yield dict(case, plan=plan[:i] + plan[i + 1:])
            if not plan:
                c = dict(case)
                del c["plan"]
                yield c
            # characters after the last fault cannot matter much: cut tail
            for cut in (n // 2, n - n // 4, n - 10, n - 1):
                if 0 < cut < n:
                    yield dict(case, text=text[:cut])
            return
        if "bytes_hex" in case:
            data = bytes.fromhex(case["bytes_hex"])
            m = len(data)
            size = m // 2
            while size >= 1:
                for start in range(0, m - size + 1, size):
                    yield dict(case, bytes_hex=(data[:start] +
                                                data[start + size:]).hex())
                size //= 2
            return
        size = n // 2
        while size >= 1:
            for start in range(0, n - size + 1, size):
                yield dict(case, text=text[:start] + text[start + size:])
            size //= 2
        # simplify characters
        for i, ch in enumerate(text):
            if ch.isalpha() and ch not in "A":
                pass

    def signature(self, case, v):
        return v.raw_sig


PROP = C06()
