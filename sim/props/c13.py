"""C13 - dumping is repeatable and does not damage its argument.

Engine E3: the C10 history machine builds modules by arbitrary operation
sequences (duplicate keys at every level, a block and a plain parameter
sharing a name, groups that are and are not valid PDS3 groups); the extra
operation ``dumps`` encodes a live container 2-4 times with the same and
with fresh encoder instances, interleaved with further mutations.
"""
import pvl
from pvl.encoder import PVLEncoder, ODLEncoder, PDSLabelEncoder, ISISEncoder
from pvl.collections import PVLGroup, PVLObject, PVLModule, OrderedMultiDict

from .. import core
from ..listmodel import Machine, MC, UserQty
from ..histgen import HistGen
from .c10 import C10

ENCODERS = {"PVL": PVLEncoder, "ODL": ODLEncoder, "PDS3": PDSLabelEncoder,
            "ISIS": ISISEncoder}


def make_encoder(name, opts):
    if name == "default":
        return None
    return ENCODERS[name](**opts)


class M13(Machine):
    ndumps = 0
    nconv = 0
    nrefused = 0

    def accept_group_conversion(self, cid):
        """After a PDS3 dump with conversion on: a top-level PVLGroup value
        may have been replaced by a PVLObject with identical content at the
        identical position.  Update the model with that and nothing else."""
        real, mc = self.reg[cid]
        try:
            ritems = list(real)
        except Exception:   # noqa: BLE001
            return
        if len(ritems) != len(mc.items):
            return
        for i, (ri, (mk, mv)) in enumerate(zip(ritems, mc.items)):
            if not (isinstance(ri, tuple) and len(ri) == 2):
                return
            rk, rv = ri
            if isinstance(mv, MC) and mv.cls in ("PVLGroup", "MyGroup") and \
                    type(rv) is PVLObject and id(rv) not in self.by_real \
                    and rk == mk:
                inner = list(rv)
                if len(inner) == len(mv.items) and all(
                        a[0] == b[0] and self.same(a[1], b[1])
                        for a, b in zip(inner, mv.items)):
                    nid = "%s>obj%d" % (mv.id, self.opi)
                    nmc = MC(nid, "PVLObject", list(mv.items))
                    self.register(nid, rv, nmc)
                    mc.items[i] = (mk, nmc)
                    self.nconv += 1

    def op_dumps(self, real, mc, enc_name, opts, ncalls, fresh,
                 between=None):
        """["dumps", cid, encoder, opts, ncalls, fresh-instance-per-call,
            [other encoder, its options] built between the calls]"""
        self.ndumps += 1
        results = []
        enc = None
        nchars = 2000 + 400 * sum(1 for _ in self.reg)
        for i in range(ncalls):
            if between and i and between[0] == "same-encoder-fails":
                # the very same encoder is used on something it must refuse,
                # part-way into a nested block (crash and reuse)
                if enc is not None and not fresh:
                    try:
                        enc.encode(PVLModule([("o", PVLObject([
                            ("g", PVLGroup([("k", 1), ("bad", object())])),
                        ]))]))
                    except Exception:   # noqa: BLE001
                        pass
            elif between and i and between[0] == "busy":
                # a busy process: another dialect's encoder works through a
                # few hundred other strings, then through this very module
                try:
                    other = make_encoder(between[1], {})
                    other.encode(PVLModule(
                        [("K%d" % j, "V%d+%d" % (j, self.opi))
                         for j in range(300)]))
                    other.encode(real)
                except Exception:   # noqa: BLE001
                    pass
            elif between and i and between[0] == "default-with-options":
                # somebody else calls pvl.dumps() with options of their own
                try:
                    pvl.dumps(PVLModule([("k", "v"), ("g", PVLGroup(
                        [("x", "a b c " * 20)]))]), **between[1])
                except Exception:   # noqa: BLE001
                    pass
            elif between and i and between[0] == "register-quantity":
                # somebody else teaches *their* encoder a quantity class
                try:
                    other = make_encoder(between[1], {})
                    other.add_quantity_cls(self.uq_class(), "value", "units")
                    other.encode(PVLModule([("n", self.uq_class()(
                        3, "PIXEL"))]))
                except Exception:   # noqa: BLE001
                    pass
            elif between and i:
                # somebody else builds (and uses) another encoder in between
                try:
                    other = make_encoder(between[0], between[1])
                    if other is not None:
                        other.encode(PVLGroup([("k", "v w x y z " * 12)]))
                except Exception:   # noqa: BLE001
                    pass
            if enc_name == "default":
                def call():
                    return pvl.dumps(real, **opts)
            else:
                if enc is None or fresh:
                    try:
                        enc = make_encoder(enc_name, opts)
                    except Exception as e:   # noqa: BLE001
                        results.append(("raise", type(e).__name__, str(e)))
                        continue
                e_ = enc

                def call():
                    return e_.encode(real)
            core.METER.begin(core.step_budget(nchars))
            try:
                results.append(("ret", call()))
            except core.SimStall:
                core.METER.end()
                self.fail("stall", "dumps did not finish (at %s)"
                          % core.METER.where)
                return (lambda: None), ("ret", None)
            except Exception as e:   # noqa: BLE001
                results.append(("raise", type(e).__name__, str(e)[:200]))
            finally:
                core.METER.end()
            if enc_name in ("PDS3", "default") and opts.get(
                    "convert_group_to_object", True):
                self.accept_group_conversion(mc.id)
            # argument intact after every single call
            self.check_container(mc.id)
            if self.problems:
                cls, detail, opi = self.problems[0]
                self.problems[0] = ("argument-damaged",
                                    "after call %d of %s dumps: %s" %
                                    (i + 1, enc_name, detail), opi)
                return (lambda: None), ("ret", None)
        kinds = set((r[0], r[1]) for r in results)
        if len(kinds) > 1:
            self.fail("not-repeatable", "%d %s dumps of the same object "
                      "gave different results: %s" % (
                          ncalls, enc_name,
                          [r[:2] if r[0] == "raise" else r[1][:300]
                           for r in results]))
        elif results and results[0][0] == "raise":
            self.nrefused += 1
            self.last_dump = ("raise", results[0][1])
            if results[0][1] not in ("ValueError", "TypeError",
                                     "QuantityError"):
                # not a C13 matter by itself; recorded for the evidence
                pass
        else:
            self.last_dump = ("ret", len(results[0][1]) if results else 0)
        return (lambda: None), ("ret", None)


class Gen13(HistGen):
    WORDS = ["ALPHA", "beta_2", "Two Words", "it's", "", "N/A", "a\tb",
             "line one\nline two", "x" * 50, "NULL", "12", "2001-01-01",
             "thirty-seven characters, not an ident", "MARS EXPRESS",
             "a symbol of just about forty characters."]
    # spelled like reserved words; written unquoted by one dialect only
    TRICKY = ["END", "End_Group", "object", "BEGIN_GROUP", "end", "A+B",
              "dn+offset", "+x", "12:30:15-08", "x#y", "a&b"]
    interleaved = False

    def __init__(self, rng, machine):
        super().__init__(rng, machine, extra_ops=("dumps",),
                         scalar=self.scalar13)
        self.weights["new"] = 1
        self.pnest = rng.choice([0.15, 0.3, 0.45])

    def scalar13(self):
        r = self.rng
        x = r.random()
        if x < 0.35:
            return self.unique_int()
        if x < 0.55:
            if r.random() < 0.3:
                return {"s": r.choice(self.TRICKY)}
            return {"s": r.choice(self.WORDS)}
        if x < 0.63:
            return {"f": r.choice([0.5, -1.25, 1e10, 3.0])}
        if x < 0.70:
            return r.random() < 0.5
        if x < 0.75:
            return {"none": 1}
        if x < 0.83:
            return {"list": [self.unique_int() for _ in
                             range(r.randint(0, 3))]}
        if x < 0.88:
            return {"mset": [self.unique_int() for _ in
                             range(r.randint(0, 3))]}
        if x < 0.91:
            return {"set": [{"s": "SYM"}, self.unique_int()]}
        if x < 0.95:
            return {"dt": r.choice([
                ["date", "2001-01-31"], ["time", "12:30:15"],
                ["time", "01:02:03.000004"],
                ["datetime", "2010-05-06T07:08:09+00:00"],
                ["datetime", "2010-05-06T07:08:09+03:00"],
                ["datetime", "2010-05-06T07:08:09"]])}
        if x < 0.97:
            return {"q": [self.unique_int(), r.choice(["m", "km/s", "a b"])]}
        if x < 0.985:
            return {"uq": [r.randrange(1, 5000), r.choice(["PIXEL", "m"])]}
        if x >= 0.9925:
            # rows given as plain tuples inside a list: every encoder
            # refuses them, none may "normalise" them in the argument
            return {"list": [{"tup": [1, 2]}, {"tup": [3, 4]}]}
        return {"list": [{"list": [1, 2]}, {"s": "A"}]}

    def g_dumps(self, cid, mc, fail):
        r = self.rng
        enc = r.choice(["PVL", "ODL", "PDS3", "PDS3", "ISIS", "default",
                        "default"])
        opts = {}
        if r.random() < 0.5:
            opts["indent"] = r.choice([0, 1, 2, 4])
        if r.random() < 0.5:
            opts["width"] = r.choice([20, 40, 80, 120])
        if r.random() < 0.3:
            opts["aggregation_end"] = r.random() < 0.5
        if enc in ("PVL", "ODL", "ISIS"):
            if r.random() < 0.3:
                opts["end_delimiter"] = r.random() < 0.5
            if r.random() < 0.3:
                opts["newline"] = r.choice(["\n", "\r\n"])
        else:
            if r.random() < 0.3:
                opts["convert_group_to_object"] = r.random() < 0.6
            if r.random() < 0.15:
                opts["tab_replace"] = r.choice([0, 2])
            if r.random() < 0.15:
                opts["symbol_single_quote"] = False
            if r.random() < 0.15:
                opts["time_trailing_z"] = False
        # prefer dumping top-level containers
        tops = [i for i in self.tops if i in self.m.reg]
        if tops and r.random() < 0.8:
            cid = r.choice(tops)
        op = ["dumps", cid, enc, opts, r.randint(2, 4), r.random() < 0.5]
        x = r.random()
        if x < 0.15:
            op.append(["same-encoder-fails", {}])
        elif x < 0.45:
            op.append([r.choice(["PVL", "ODL", "PDS3", "ISIS"]),
                       {"width": r.choice([20, 40, 60, 79, 80, 81, 120]),
                        "indent": r.choice([0, 2, 4])}])
            self.interleaved = True
        elif x < 0.55:
            op.append(["busy", {"PVL": "ISIS", "ISIS": "PVL"}.get(
                enc, r.choice(["PVL", "ODL", "ISIS"]))])
            self.interleaved = True
        elif x < 0.62:
            op.append(["default-with-options",
                       {"indent": r.choice([0, 1, 3, 6]),
                        "width": r.choice([30, 60, 100]),
                        **({"convert_group_to_object": False}
                           if r.random() < 0.3 else {})}])
            self.interleaved = True
        elif x < 0.68:
            op.append(["register-quantity",
                       r.choice(["PVL", "ODL", "PDS3", "ISIS"])])
            self.interleaved = True
        return op


class C13(C10):
    ID = "C13"
    RUNS = {"quick": 25000, "thorough": 600000}
    CHUNK = 100
    MAXOPS = 30
    machine_cls = M13
    RULE = ("One run = one seeded history (1..30 operations) that builds "
            "containers with the C10 operations (values: ints, strings, "
            "reals, booleans, None, lists, sets, dates/times, quantities, "
            "nested groups/objects with duplicate keys at every level) and "
            "interleaves dumps operations: PVL/ODL/PDS3/ISIS encoders or "
            "pvl.dumps defaults, seeded options, 2-4 calls in a row on the "
            "same or fresh encoder instances.  After each single call the "
            "argument is compared with the model (permitted: a top-level "
            "PVLGroup replaced by a PVLObject of identical content at the "
            "identical position under PDS3 with conversion on); calls in a "
            "row must agree (same text, or same exception type). "
            "evaluations = operations incl. every encode call.  Non-trivial "
            "run = a dump that happened after at least one successful "
            "mutation and was followed or preceded by a failed operation or "
            "a refused dump; distinct = distinct event-log digests among "
            "those."
            " Between repeated dumps: another encoder built and used, the same encoder failing on another module, a busy process (300 other strings and this module through another dialect), pvl.dumps with options, add_quantity_cls on somebody else's encoder; values include reserved words, dialect-dependent strings and a user quantity class and lists of plain tuple rows (refused by every encoder, and not to be rewritten); the class of every container and the exact type of every list/tuple value is part of the comparison.")
    ASSUMPTIONS = [
        "the reading of 'as documented' for the building operations is the "
        "C10 list-of-pairs model",
        "the permitted PDS3 side effect is modelled as: the group's place "
        "in the module is taken by a PVLObject with the same items (the "
        "encoder builds a new object; the old group object is no longer "
        "referenced by the module)",
        "a dump that raises must still leave its argument intact"]
    COMPONENTS_REAL = ["pvl.dumps, PVLEncoder, ODLEncoder, PDSLabelEncoder, "
                       "ISISEncoder", "pvl.collections containers"]
    COMPONENTS_STUB = ["none"]
    REQUIRED_PROBES = ["probe.dumps:PDS3", "probe.dumps:default",
                       "probe.dumps:PVL", "probe.dumps:ODL",
                       "probe.dumps:ISIS", "probe.group-converted",
                       "probe.dump-refused", "probe.dump-with-duplicate-keys",
                       "probe.dump-after-mutation"]

    def make_gen(self, rng, m):
        return Gen13(rng, m)

    def probes(self, out, m, op):
        super().probes(out, m, op)
        if op[0] == "dumps" and op[1] in m.reg:
            out.inc("probe.dumps:" + op[2])
            mc = m.reg[op[1]][1]
            ks = mc.keys()
            if len(ks) != len(set(ks)):
                out.inc("probe.dump-with-duplicate-keys")
            if self.mutated:
                out.inc("probe.dump-after-mutation")
                self.dumped_after = True
        elif op[0] not in ("new", "dumps"):
            self.mutated = True

    def run(self, rng, index, tier):
        self.mutated = False
        self.dumped_after = False
        out = super().run(rng, index, tier)
        out.nontrivial = out.nontrivial and self.dumped_after
        return out

    def finish(self, out, m):
        out.evals += m.ndumps * 2
        if m.nconv:
            out.inc("probe.group-converted", m.nconv)
        if m.nrefused:
            out.inc("probe.dump-refused", m.nrefused)
            out.inc("fault.refused-dump", m.nrefused)


PROP = C13()
