"""C05 - ill-formed text is rejected, never silently truncated.

Engine E1.  One run draws a configuration, an abstract document and a
layout, then (a) sweeps EOF after every token and deletion of every single
token, (b) executes seeded multi-fault plans (delete, duplicate, swap,
replace, truncate, truncate inside a delimited token), each at text level
(damaged token list re-rendered; real lexer + real parser) and at channel
level (intact text, SimLexer damages the token stream in flight).  The
oracle is the independent token-kind recogniser (sim/refparse.py).
"""
import json

from .. import core, gen, refparse, chan, dialects, e1
from ..core import Property, RunOut, Violation
from ..gen import END, PARTIAL, Tok

import re as _re
# a '#' line comment whose line ends in a dash: "# ----<line end>"
_DASH_HASH = _re.compile(r"(#[^\n\r\f]*)-([\n\r\f])")

FAMILY = {"PVL": "strict", "ODL": "strict", "PDS3": "strict",
          "ISIS": "tolerant", "default": "tolerant"}


def kinds_string(toks, limit=40):
    ks = [t.kind for t in toks]
    if len(ks) > limit:
        ks = ks[:limit] + ["..."]
    return " ".join(ks)


class C05(Property):
    ID = "C05"
    RUNS = {"quick": 2400, "thorough": 60000}
    CHUNK = 20
    RULE = ("One run = one generated well-formed label (1-8 statements, "
            "block depth <=3, core vocabulary) in one of the five parser "
            "configurations under a seeded layout, then: fault-free control "
            "load; sweep of EOF after every token and of deletion of every "
            "single token; 8-16 seeded plans of 1-4 faults (delete, "
            "duplicate, swap-adjacent, replace by another kind / the other "
            "end keyword / a different block name / the other bracket, "
            "truncate at a token, truncate inside a quoted string / units "
            "/ based integer / comment), each executed at text level and at "
            "channel level.  Verdict per load from the token-kind "
            "recogniser: REJECT -> pvl must raise LexerError/ParseError; "
            "ACCEPT(tree) -> a returned module must equal the tree; ABSTAIN "
            "decides nothing.  evaluations = loads of damaged or control "
            "labels by real pvl.  A load is non-trivial when at least one "
            "fault fired before the END statement after at least one "
            "complete statement; distinct_nontrivial counts distinct "
            "(configuration family, level, damaged token-kind string) "
            "among those - approximated per run by the run's event-log "
            "digest, i.e. distinct runs containing such loads."
            " Also generated: malformed and doubled units delimiters, odd-space tokens, block names in another case, a value lost plus the text ending a few tokens later (4 plans per label), container classes of the caller's own, quoted strings of 2**15-1..2**16+7 characters (2% of runs, whole and torn), '#' comments ending in a dash (open known finding, matched only after a counterfactual re-run).")
    ASSUMPTIONS = [
        "well-formedness of a damaged token sequence is decided by the "
        "token-kind recogniser sim/refparse.py (grammar quoted in the "
        "property text); where the specifications do not fix the answer "
        "it abstains (empty blocks, BEGIN_ forms under ISIS, NULL/TRUE/"
        "FALSE or a date in a name position)",
        "damaged token lists are re-rendered with white space between all "
        "tokens so that token boundaries are not in question",
        "C05 is one-directional: well-formed text that pvl rejects is "
        "counted (accept_but_raised) but is not a C05 violation",
    ]
    COMPONENTS_REAL = ["pvl.lexer.lexer", "PVLParser/ODLParser/OmniParser",
                       "all decoders", "pvl.loads"]
    COMPONENTS_STUB = ["SimLexer interposer on the lexer_fn seam (passes "
                       "real Token objects; channel-level cases only)"]
    REQUIRED_PROBES = ["probe.fault-inside-nested-block",
                       "probe.pushback-depth>=3",
                       "probe.reject", "probe.accept-damaged",
                       "probe.abstain", "probe.tolerant-empty-value",
                       "probe.very-long-token"]
    FAULT_KINDS = ["drop", "dup", "swap", "replace", "eof", "partial"]

    # ---- executing one explicit case
    def execute_case(self, case, out=None):
        """-> (verdict, outcome, violations)"""
        config = case["config"]
        level = case["level"]
        base = [e1.tok_from(j) for j in case["tokens"]]
        if level == "chan":
            damaged = e1.apply_plan(base, case["plan"])
            st = chan.ChanStats()
            lexer_fn = chan.make_lexer_fn(case["plan"], st)
        else:
            damaged = base
            st = None
            lexer_fn = None
        verdict = refparse.recognise(damaged, config, e1.value_of)
        o = dialects.load(config, case["text"], lexer_fn,
                          custom=case.get("custom", False))
        vs = []
        fam = FAMILY[config]

        def viol(cls, detail):
            where = ""
            if o.kind in ("exc", "stall"):
                where = "|" + o.brief()
            vs.append(Violation(
                cls, detail, case,
                raw_sig="%s|%s|%s%s|%s" % (
                    cls, fam, level, where,
                    "+".join(sorted(set(f["kind"] for f in case.get(
                        "plan", [])))) or "-")))

        if verdict[0] == "REJECT":
            if o.kind == "ok":
                viol("wrong-return",
                     "%s %s-level: text is not a module (%s) but the load "
                     "returned %s; tokens: %s" % (
                         config, level, verdict[1], core.short(o.value),
                         kinds_string(damaged)))
            elif not o.documented():
                viol("undocumented-exit",
                     "%s %s-level: ill-formed text (%s) ended in %s; "
                     "tokens: %s" % (config, level, verdict[1], o.brief(),
                                     kinds_string(damaged)))
        elif verdict[0] == "ACCEPT":
            if o.kind == "ok":
                got = e1.strip_lineno(core.canon(o.value))
                exp = e1.strip_lineno(verdict[1])
                if got != exp:
                    viol("altered-or-missing-statement",
                         "%s %s-level: returned %r, the text denotes %r" %
                         (config, level, got, exp))
        if vs and not case.get("_counterfactual") and \
                _DASH_HASH.search(case["text"]):
            # Is it the known interplay of '#' comments and dash
            # continuation?  Only if the very same case is fine once the
            # dash that ends the comment line is something else.
            t2 = _DASH_HASH.sub(lambda m: m.group(1) + "~" + m.group(2),
                                case["text"])
            v2 = self.execute_case(dict(case, text=t2, _counterfactual=1))[2]
            if not v2:
                for v in vs:
                    v.raw_sig = "hash-comment-ending-in-a-dash|" + fam
        if out is not None:
            out.evals += 1
            out.inc("verdict.%s/%s" % (verdict[0], o.kind if o.kind in (
                "ok", "LexerError", "ParseError") else "other"))
            if verdict[0] == "ACCEPT" and o.kind != "ok":
                out.inc("accept_but_raised")
            if not o.documented():
                out.inc("c06-invariant-broken")
            if st is not None:
                for kind, _ in st.fired:
                    out.inc("fault.chan-" + kind)
                if st.max_pushback_run >= 3:
                    out.inc("probe.pushback-depth>=3")
            out.log.ev(level, config, verdict[0], o.brief())
        return verdict, o, vs

    # ---- one run
    def run(self, rng, index, tier):
        out = RunOut()
        gen.Layout.dash_hash = True
        config = rng.choice(dialects.CONFIGS)
        stmts, toks, text, style = gen.render_doc(
            rng, config, max_stmts=rng.choice([1, 2, 3, 4, 6, 8]))
        n = len(toks)
        endi = e1.end_index(toks)
        live = n if endi is None else endi      # tokens before END
        tj = [e1.tok_json(t) for t in toks]
        out.log.ev("label", config, text)

        custom = rng.choice([True, "plain"]) if rng.random() < 0.1 else False
        if custom:
            out.inc("probe.custom-container-classes")

        def text_case(damaged):
            dt, dtext = gen.render_tokens(rng, config, damaged)
            if damaged and damaged[-1].kind == PARTIAL:
                dtext = dtext[:dt[-1].end]      # the cut ends the text
            return {"config": config, "level": "text", "custom": custom,
                    "tokens": [e1.tok_json(t) for t in dt], "text": dtext}

        def chan_case(plan):
            return {"config": config, "level": "chan", "tokens": tj,
                    "text": text, "plan": plan, "custom": custom}

        def note(plan_or_kind, fired_index):
            """reach probes for one fault that can fire at *fired_index*"""
            if fired_index is None or fired_index >= max(live, 1):
                return False
            t = toks[min(fired_index, n - 1)]
            out.inc("probe.fault@%s/depth%s" % (t.role or t.kind,
                                                 min(t.depth, 2)))
            if t.depth >= 1:
                out.inc("probe.fault-inside-nested-block")
            return fired_index > 3

        def do(case, fired_at=None):
            verdict, o, vs = self.execute_case(case, out)
            out.violations.extend(vs)
            if verdict[0] == "REJECT":
                out.inc("probe.reject")
            elif verdict[0] == "ABSTAIN":
                out.inc("probe.abstain")
            elif case.get("plan") or case["level"] == "text":
                if fired_at is not None:
                    out.inc("probe.accept-damaged")
                if verdict[2]:
                    out.inc("probe.tolerant-empty-value")
            return verdict

        # fault-free control (separately, so that relaxation under faults
        # hides no ordinary bug)
        do({"config": config, "level": "text", "tokens": tj, "text": text})
        do(chan_case([]))

        # (a) systematic sweep for this label
        sweep = [k for k in ("eof-text", "eof-chan", "del-text", "del-chan")
                 if rng.random() < 0.6]
        positions = list(range(min(live + 1, n)))
        if len(positions) > 30:
            positions = sorted(rng.sample(positions, 30))
        for k in positions:
            if "eof-text" in sweep:
                out.inc("fault.text-eof")
                if note("eof", k):
                    out.nontrivial = True
                do(text_case(toks[:k]), k)
            if "eof-chan" in sweep:
                if note("eof", k):
                    out.nontrivial = True
                do(chan_case([{"kind": "eof", "at": k}]), k)
            if k < n and "del-text" in sweep:
                out.inc("fault.text-drop")
                note("drop", k)
                do(text_case(toks[:k] + toks[k + 1:]), k)
            if k < n and "del-chan" in sweep:
                note("drop", k)
                do(chan_case([{"kind": "drop", "at": k}]), k)

        # (b) seeded multi-fault plans, each at both levels
        kinds = [k for k in self.FAULT_KINDS if rng.random() < 0.7] or \
            ["drop"]
        for _ in range(rng.randint(8, 16)):
            nf = rng.choice([1, 1, 2, 3, 4])
            ckinds = [k for k in kinds if k != "partial"] or ["drop"]
            plan = e1.random_plan(rng, toks[:max(live, 1)] if rng.random()
                                  < 0.9 else toks, nf, ckinds)
            if "partial" in kinds and rng.random() < 0.25:
                # cut the text inside a delimited token
                cands = [i for i, t in enumerate(toks[:live])
                         if e1.partial_text(rng, t) is not None]
                if cands:
                    at = rng.choice(cands)
                    plan = [f for f in plan if f["at"] < at - 1]
                    plan.append({"kind": "partial", "at": at,
                                 "text": e1.partial_text(rng, toks[at])})
                elif rng.random() < 0.5:
                    at = rng.randrange(max(live, 1))
                    plan = [f for f in plan if f["at"] < at - 1]
                    plan.append({"kind": "partial", "at": at,
                                 "text": rng.choice([
                                     "/* unterminated",
                                     "/* unterminated\n",
                                     "/* lost its end\nX = 1\n"])})
            if not plan:
                continue
            first = plan[0]["at"]
            if note(plan[0]["kind"], first):
                out.nontrivial = True
            for f in plan:
                out.inc("fault.text-" + f["kind"])
            do(text_case(e1.apply_plan(toks, plan)), first)
            cplan = [f for f in plan if f["kind"] != "partial"]
            if cplan and len(cplan) == len(plan):
                do(chan_case(cplan), first)
        # (b2) two damages that only matter together: a value lost after
        # '=' and the text ending a few tokens later (inside the block, or
        # right after the next assignment)
        vals = [i for i, t in enumerate(toks[:live])
                if t.role == "value" and i + 2 < n]
        for _ in range(4 if vals else 0):
            i = rng.choice(vals)
            j = min(n - 1, i + rng.choice([2, 3, 4, 4, 5, 7]))
            plan = [{"kind": "drop", "at": i}, {"kind": "eof", "at": j}]
            out.inc("fault.text-drop")
            out.inc("fault.text-eof")
            out.inc("probe.value-lost-then-text-ends")
            if note("drop", i):
                out.nontrivial = True
            do(text_case(e1.apply_plan(toks, plan)), i)
            do(chan_case(plan), i)

        # (b3) a units expression with a delimiter too many
        for i in [i for i, t in enumerate(toks[:live])
                  if t.kind == gen.UNITS][:2]:
            bad = rng.choice(["<" + toks[i].text, toks[i].text + ">",
                              "<" + toks[i].text + ">"])
            plan = [{"kind": "replace", "at": i, "tkind": gen.BADUNITS,
                     "text": bad, "val": None}]
            out.inc("fault.text-replace")
            out.inc("probe.units-delimiter-doubled")
            do(text_case(e1.apply_plan(toks, plan)), i)

        # (c) a very long token (a long description, an embedded table):
        # well-formed, every later statement must still be there; torn, the
        # load must raise.  Sizes straddle 2**15 and 2**16.
        if rng.random() < 0.02:
            tops = [i for i, t in enumerate(toks[:max(live, 1)])
                    if t.depth == 0 and t.role in ("name", "begin")] or [0]
            at = rng.choice(tops)
            size = rng.choice([2 ** 15 - 1, 2 ** 15 + 1, 40000, 2 ** 16 + 7])
            body = "x" * size
            long_stmt = [gen.Tok(gen.NAME, "LONGTEXT", "name", 0, -7,
                                 ("str", "LONGTEXT")),
                         gen.Tok(gen.EQ, "=", "eq", 0, -7),
                         gen.Tok(gen.STR, '"%s"' % body, "value", 0, -7,
                                 ("str", body))]
            ltoks = [t.clone() for t in toks[:at]] + long_stmt + \
                [t.clone() for t in toks[at:]]
            out.inc("probe.very-long-token")
            do(text_case(ltoks))
            torn = rng.choice(['"' + body, "/* " + body, "'" + body])
            out.inc("fault.text-partial")
            do(text_case(e1.apply_plan(ltoks, [
                {"kind": "partial", "at": at + 2, "text": torn}])), at + 2)
        if out.violations:
            out.inc("violations", len(out.violations))
        if index % 200 == 0:
            out.sample = {"run_index": index, "config": config,
                          "text": text[:400], "tokens": n,
                          "sweeps": sweep, "fault_kinds": kinds}
        return out

    # ---- replay / shrink
    def execute(self, case):
        return self.execute_case(case)[2]

    def reductions(self, case):
        toks = case["tokens"]
        n = len(toks)

        def rebuilt(new_toks, plan=None):
            c = {"config": case["config"], "level": case["level"],
                 "custom": case.get("custom", False),
                 "tokens": new_toks,
                 "text": " ".join(t[1] for t in new_toks)}
            if plan is not None:
                c["plan"] = plan
            return c

        if case["level"] == "chan":
            plan = case["plan"]
            # try the same damage at text level first (simpler replay)
            base = [e1.tok_from(j) for j in toks]
            dam = e1.apply_plan(base, plan)
            yield {"config": case["config"], "level": "text",
                   "custom": case.get("custom", False),
                   "tokens": [e1.tok_json(t) for t in dam],
                   "text": " ".join(t.text for t in dam)}
            for i in range(len(plan)):
                yield dict(case, plan=plan[:i] + plan[i + 1:])
            # plain layout
            if case["text"] != " ".join(t[1] for t in toks):
                yield rebuilt(toks, plan)
            ats = set(f["at"] for f in plan) | set(
                f["at"] + 1 for f in plan if f["kind"] == "swap")
            for j in range(n - 1, -1, -1):
                if j in ats:
                    continue
                np_ = [dict(f, at=f["at"] - 1) if f["at"] > j else f
                       for f in plan]
                yield rebuilt(toks[:j] + toks[j + 1:], np_)
            return
        if case["text"] != " ".join(t[1] for t in toks):
            yield rebuilt(toks)
        # whole statements, then single tokens
        stmts = sorted(set(t[4] for t in toks if t[4]), reverse=True)
        for s in stmts:
            keep = [t for t in toks if t[4] != s]
            if len(keep) < n:
                yield rebuilt(keep)
        for j in range(n - 1, -1, -1):
            yield rebuilt(toks[:j] + toks[j + 1:])
        simple = {"NAME": "A", "NUM": "1", "STR": '"s"', "DATE": None,
                  "KWVAL": None}
        for j, t in enumerate(toks):
            rep = simple.get(t[0])
            if rep and t[1] != rep and t[2] not in ("block-name",
                                                    "end-name"):
                val = {"NAME": ["str", "A"], "NUM": ["int", 1],
                       "STR": ["str", "s"]}[t[0]]
                yield rebuilt(toks[:j] + [[t[0], rep, t[2], t[3], t[4], val]]
                              + toks[j + 1:])

    def signature(self, case, v):
        if str(v.raw_sig).startswith("hash-comment-ending-in-a-dash|"):
            return v.raw_sig
        base = [e1.tok_from(j) for j in case["tokens"]]
        if case["level"] == "chan":
            dam = e1.apply_plan(base, case["plan"])
            extra = "|chan:" + "+".join(f["kind"] for f in case["plan"])
        else:
            dam = base
            extra = ""
        where = ""
        if "ended in " in str(v.detail):
            where = "|" + str(v.detail).split("ended in ")[1].split(";")[0]
        return "%s|%s%s|%s%s" % (FAMILY[case["config"]], v.cls, where,
                                  kinds_string(dam, 16), extra)


PROP = C05()
