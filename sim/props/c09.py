"""C09 - file, stream and string entry points agree; nothing after END
matters.

Engine E2.  One run stores label + separator + trailing bytes once and loads
the same stored object through each of the seven ways (str path, PathLike,
file: URL, text stream, binary stream, str, bytes) in a seeded order.
Streams are SimRaw objects under the real io.BufferedReader/TextIOWrapper
with seeded buffer sizes, short reads, non-seekability (a pipe),
pre-advanced position and injected OSError.  Every load goes through the
counting SimLexer.  Then the module is dumped to a path, a PathLike, a text
stream and a buffered binary stream with short writes / full-disk faults.
"""
import io
import os
import pathlib

import pvl
import pvl.new

from .. import core, gen, chan, dialects, iosim
from ..core import Property, RunOut, Violation

ENTRIES = ["path-str", "pathlike", "url", "text-stream", "binary-stream",
           "str", "bytes"]


class FsPath:
    """A minimal os.PathLike that is not a pathlib.Path."""

    def __init__(self, p):
        self.p = p

    def __fspath__(self):
        return self.p


def make_tail(rng, kind):
    if kind == "none":
        return b""
    if kind == "binary":
        return bytes(rng.randrange(256) for _ in range(rng.randint(1, 300)))
    if kind == "high":
        return bytes(rng.randrange(128, 256)
                     for _ in range(rng.randint(1, 200)))
    if kind == "utf8":
        return "".join(rng.choice("aé€日本𝄞 Zß\n")
                       for _ in range(rng.randint(1, 100))).encode()
    if kind == "utf8-cut":
        # valid UTF-8 that ends in the middle of a multi-byte character
        t = "".join(rng.choice("aé€日本𝄞 Z\n")
                    for _ in range(rng.randint(1, 60))).encode()
        return t + rng.choice(["é", "€", "𝄞"]).encode()[:-1]
    if kind == "nul":
        return b"\0" * rng.randint(1, 400)
    if kind == "late-binary":
        # undecodable bytes only after more than one 8 kB chunk of text
        return (b"padding line\n" * rng.randint(700, 1500)) + \
            bytes(rng.randrange(128, 256) for _ in range(40))
    if kind == "long-run":
        n = rng.choice([100_000, 250_000])
        return (b"Q" * n) + bytes([0xFF, 0xFE]) + b"\x00\x01"
    if kind == "long-run-utf8":
        return ("Zé" * 60_000).encode()
    if kind == "pvl-like":
        return b"\nX_AFTER = 1\nGROUP = late\n Y = 2\nEND_GROUP\nEND\n"
    if kind == "pvl-like-broken":
        return b"\nX = ( 1, \nEND_GROUP = = \"unterminated"
    raise ValueError(kind)


TAILS = ["none", "binary", "high", "utf8", "utf8-cut", "nul", "pvl-like",
         "pvl-like-broken", "late-binary", "long-run", "long-run-utf8"]


def advance(f, header, how):
    """What a caller did before handing the stream over: consumed the
    one-line header by read(n), readline() or next() (iterating lines)."""
    if not header:
        return
    if how == "next":
        next(f)
        return
    if how == "readline":
        f.readline()
        return
    left = len(header)
    while left > 0:         # a raw read may return fewer bytes
        got = f.read(left)
        if not got:
            break
        left -= len(got)


def describe(o):
    if o.kind == "ok":
        return ("ok", core.canon(o.value))
    if o.kind in ("LexerError", "ParseError"):
        return (o.kind,)
    if o.kind == "exc":
        return ("exc", type(o.exc).__name__)
    return (o.kind, str(o.where))


class C09(Property):
    ID = "C09"
    RUNS = {"quick": 3000, "thorough": 60000}
    CHUNK = 20
    RULE = ("One run = one generated label (ASCII; in 1 run of 5 with "
            "non-ASCII characters inside strings; in 1 of 10 damaged) + "
            "separator after END (LF, CR-LF, space, tab, ';', NUL) + "
            "trailing bytes (none, random binary, high bytes, valid UTF-8 "
            "incl. multi-byte, NULs, PVL-looking text with another END, "
            "100-250 kB unbroken decodable runs), stored once and loaded "
            "through all seven entry points in a seeded order with a "
            "counting SimLexer; stream knobs per load: buffer size 0/1/2/3/"
            "7/64/8192, TextIOWrapper chunk size, short raw reads, newline "
            "mode, non-seekable, pre-advanced position, OSError at byte k. "
            "Oracle: every entry point returns the module of "
            "pvl.loads(label) (or raises the same exception type), requests "
            "no token after END, stays inside a step budget computed from "
            "the label length; OSError propagates.  Then dump to path / "
            "PathLike / text stream / buffered binary stream must write "
            "exactly dumps() and return its length (short writes and "
            "ENOSPC at the raw layer must not yield silent truncation).  "
            "evaluations = loads + dumps.  Non-trivial run = trailing bytes "
            "present or a stream fault knob active; distinct = distinct "
            "event-log digests among those."
            " Also generated: byte order marks, streams advanced by read/readline/next, the encoding= argument, non-pathlib PathLike, the seven pvl.new entry points (10% of default runs), no separator before a byte the strict grammar does not allow, a multi-byte character across a multiple of 8192 bytes (3%), dump targets holding unflushed text of the caller (25% of stream targets).")
    ASSUMPTIONS = [
        "CR alone is never used as a line end and labels handed to a strict "
        "parser carry no CR inside quoted strings (Python's text layer "
        "translates newlines on the path and text-stream routes)",
        "END must be followed by a separator unless nothing follows or the "
        "first trailing byte cannot continue a token",
        "raw unbuffered writers that short-write are not in the oracle "
        "(RawIOBase.write permits it)",
        "a binary dump target reports the number of bytes, a text target "
        "the number of characters",
    ]
    COMPONENTS_REAL = ["pvl.load / loadu / loads / dump / dumps, "
                       "get_text_from, decode_by_char",
                       "CPython io.BufferedReader/Writer, TextIOWrapper, "
                       "pathlib, urllib file: handler", "real scratch files"]
    COMPONENTS_STUB = ["SimRaw / SimRawW raw streams", "counting SimLexer"]
    REQUIRED_PROBES = ["probe.entry:" + e for e in ENTRIES] + [
        "probe.tail-undecodable", "probe.tail-long-run",
        "probe.non-seekable", "probe.pre-advanced", "probe.oserror-injected",
        "probe.short-reads", "probe.non-ascii-label", "probe.dump-text-stream",
        "probe.dump-binary-stream", "probe.dump-path", "probe.dump-enospc",
        "probe.real-file-object",
        "probe.pre-advanced-text-with-late-binary",
        "probe.byte-order-mark", "probe.encoding-argument",
        "probe.pvl-new-entry-points",
        "probe.no-separator-before-disallowed-byte",
        "probe.dump-after-unflushed-text", "probe.label-across-a-block-boundary",
        "probe.pre-advanced-by-next",
        "probe.pre-advanced-by-readline"]

    # ---- one load through one entry point
    def load_entry(self, case, entry, knobs, st):
        label = case["label"]
        data = bytes.fromhex(case["data_hex"])
        header = case.get("header", "")
        cfg = case.get("config", "default")
        lex = chan.make_lexer_fn([], st)
        kw = {}
        if cfg == "default":
            kw["lexer_fn"] = lex
        else:
            kw["parser"] = dialects.make_parser(cfg, lex)
        nchars = len(label) + len(data) // 300 + 200
        # the same entry points of the documented pvl.new module
        P = pvl.new if case.get("api") == "new" else pvl
        if entry in ("path-str", "pathlike", "url"):
            p = iosim.SCRATCH.put(data)
            if knobs.get("encoding"):
                kw = dict(kw, encoding=knobs["encoding"])
            if entry == "path-str":
                fn = lambda: P.load(p, **kw)
            elif entry == "pathlike":
                arg = pathlib.Path(p) if knobs.get("pathlib", True) \
                    else FsPath(p)
                fn = lambda: P.load(arg, **kw)
            else:
                fn = lambda: P.loadu("file://" + p, **kw)
            return core.guarded(fn, nchars), None
        if entry in ("text-stream", "binary-stream") and knobs.get(
                "realfile"):
            # a real file object from open(), as most callers have
            p = iosim.SCRATCH.put(header.encode() + data)
            if entry == "text-stream":
                f = open(p, "r", encoding="utf-8",
                         newline=knobs.get("newline"))
            else:
                f = open(p, "rb", buffering=knobs.get("buffer", -1) or 0)
            try:
                advance(f, header, knobs.get("advance"))
                return core.guarded(lambda: P.load(f, **kw), nchars), None
            finally:
                f.close()
        if entry in ("text-stream", "binary-stream"):
            full = header.encode() + data
            fa = knobs.get("fail_at")
            raw_kw = {"max_read": knobs.get("max_read"),
                      "seekable": not knobs.get("pipe", False),
                      "fail_at": None if fa is None else fa + len(
                          header.encode())}
            if entry == "text-stream":
                f, raw = iosim.text_reader(
                    full, knobs.get("buffer", 8192), knobs.get("chunk"),
                    knobs.get("newline"), **raw_kw)
                advance(f, header, knobs.get("advance"))
            else:
                f, raw = iosim.binary_reader(
                    full, knobs.get("buffer", 8192), **raw_kw)
                advance(f, header, knobs.get("advance"))
            return core.guarded(lambda: P.load(f, **kw), nchars), raw
        if entry == "str":
            s = label + data[len(label.encode()):].decode("latin-1")
            return core.guarded(lambda: P.loads(s, **kw), nchars), None
        if entry == "bytes":
            return core.guarded(lambda: P.loads(data, **kw), nchars), None
        raise ValueError(entry)

    def check_load(self, case, entry, knobs, out=None):
        st = chan.ChanStats()
        o, raw = self.load_entry(case, entry, knobs, st)
        got = describe(o)
        ref = core.tuplify(case["ref"])
        vs = []

        def viol(cls, detail):
            try:
                bytes.fromhex(case["data_hex"]).decode()
                und = ""
            except UnicodeDecodeError:
                und = "|undecodable-data-after-label"
            vs.append(Violation(
                cls, "%s%s: %s" % (entry, " " + str(knobs) if knobs else "",
                                   detail),
                dict(case, only=[entry, knobs]),
                raw_sig="%s|%s|%s%s%s%s" % (
                    cls, entry, "/".join(str(x) for x in got[:2])
                    if got[0] != "ok" else "ok",
                    "|non-seekable" if knobs.get("pipe") else "",
                    "|advanced-by-next()" if knobs.get("advance") == "next"
                    and not knobs.get("pipe") else "", und)))

        injected = knobs.get("fail_at") is not None
        if injected and got == ("exc", "OSError"):
            pass        # propagated, as it must
        elif got != ref:
            if injected and raw is not None and raw.failed:
                viol("oserror-swallowed", "raw read raised OSError but the "
                     "load ended in %s" % (str(got)[:200],))
            elif got[0] == "stall":
                viol("stall", "load did not finish within the budget for a "
                     "%d-character label (%s)" % (len(case["label"]), got[1]))
            else:
                viol("entry-points-disagree",
                     "gives %s, pvl.loads(label) gives %s" %
                     (str(got)[:300], str(ref)[:300]))
        if st.end_seen and st.fresh_after_end:
            viol("token-requested-after-END", "%d token(s) requested from "
                 "the lexer after the END statement" % st.fresh_after_end)
        if out is not None:
            out.evals += 1
            out.inc("probe.entry:" + entry)
            out.log.ev(entry, sorted(knobs.items()), got[0],
                       st.fresh_after_end)
            out.inc("logical.chan-events", st.fresh + st.sends)
            if raw is not None:
                out.inc("logical.raw-reads", raw.n_reads)
                if raw.n_seeks:
                    out.inc("probe.rewound-for-fallback")
        return vs

    # ---- dumps
    def check_dump(self, case, target, knobs, out=None):
        cfg = case.get("dump_encoder", "PDS3")
        label = case["label"]
        vs = []

        def viol(cls, detail):
            vs.append(Violation(
                cls, "dump to %s %s: %s" % (target, knobs, detail),
                dict(case, only_dump=[target, knobs]),
                raw_sig="%s|dump-%s|%s" % (cls, target, "+".join(
                    sorted(k for k, v in knobs.items() if v)) or "-")))

        def enc():
            return None if cfg == "default" else dialects.make_encoder(cfg)

        def kw():
            e = enc()
            return {} if e is None else {"encoder": e}

        try:
            m = pvl.loads(label)
        except Exception:  # noqa: BLE001
            return vs
        raw = None
        if target in ("path-str", "pathlike"):
            p = iosim.SCRATCH.path()
            arg = p if target == "path-str" else (
                pathlib.Path(p) if knobs.get("pathlib", True) else FsPath(p))
            o = core.guarded(lambda: pvl.dump(m, arg, **kw()), 5000)
            written = None
            if os.path.exists(p):
                with open(p, "rb") as f:
                    written = f.read()
        else:
            raw = iosim.SimRawW(max_write=knobs.get("max_write"),
                                capacity=knobs.get("capacity"))
            bw = io.BufferedWriter(raw, buffer_size=knobs.get("buffer", 8192))
            if target == "text-stream":
                f = io.TextIOWrapper(bw, encoding="utf-8",
                                     newline=knobs.get("newline", ""))
            else:
                f = bw
            prefix = b""
            if knobs.get("prefix"):
                # the caller has written a header of its own to the stream
                # and has not flushed it: the label comes after it
                prefix = knobs["prefix"].encode()
                try:
                    f.write(knobs["prefix"] if target == "text-stream"
                            else prefix)
                except OSError:
                    pass
            o = core.guarded(lambda: pvl.dump(m, f, **kw()), 5000)
            flush_err = None
            try:
                f.flush()
            except OSError as e:
                flush_err = e
            written = bytes(raw.buf)
            try:
                f.detach() if target == "text-stream" else None
            except Exception:  # noqa: BLE001
                pass
        # the reference text comes from the very same module object (after
        # the dump: the PDS3 group conversion is idempotent); two separately
        # loaded modules may order a set differently (a NaN hashes by
        # identity), which is none of C09's business
        ro = core.guarded(lambda: pvl.dumps(m, **kw()), 5000)
        text = ro.value if ro.kind == "ok" else None
        if out is not None:
            out.evals += 2
            out.inc("probe.dump-" + ("path" if target in (
                "path-str", "pathlike") else target))
            out.log.ev("dump", target, sorted(knobs.items()), o.kind,
                       core=False)
        if text is None:
            # the encoder refuses this module: every target must refuse alike
            if o.kind == "ok":
                viol("dump-succeeded-where-dumps-raises",
                     "dumps raised %s but dump returned %r" %
                     (ro.brief(), o.value))
            return vs
        expect_bytes = text.encode()
        if raw is not None and knobs.get("prefix"):
            expect_bytes = knobs["prefix"].encode() + expect_bytes
        full_disk = raw is not None and raw.failed
        if full_disk:
            if out is not None:
                out.inc("probe.dump-enospc")
            surfaced = (o.kind == "exc" and isinstance(o.exc, OSError)) or \
                flush_err is not None
            if not surfaced:
                viol("write-error-swallowed", "the raw layer raised ENOSPC "
                     "but neither dump nor flush reported it")
            return vs
        if o.kind != "ok":
            viol("dump-raised", "dump ended in %s, dumps returns %d "
                 "characters" % (o.brief(), len(text)))
            return vs
        want_ret = len(text.encode()) if target == "binary-stream" \
            else len(text)
        if o.value != want_ret:
            viol("dump-return-value", "returned %r, len(dumps) is %d" %
                 (o.value, want_ret))
        if written != expect_bytes:
            viol("dump-content", "target holds %d bytes, dumps gives %d: "
                 "%r... vs %r..." % (len(written or b""), len(expect_bytes),
                                     (written or b"")[:60],
                                     expect_bytes[:60]))
        return vs

    # ---- one run
    def run(self, rng, index, tier):
        out = RunOut()
        try:
            return self._run(rng, index, tier, out)
        finally:
            iosim.SCRATCH.clean()

    def _run(self, rng, index, tier, out):
        cfg = rng.choice(["default"] * 7 + ["PVL", "ODL", "PDS3"])
        gcfg = cfg
        stmts = gen.DocGen(rng, max_stmts=rng.choice([1, 2, 4, 6]),
                           extended=(cfg == "default" and
                                     rng.random() < 0.3)).document()
        nonascii = rng.random() < 0.2
        style = gen.Style(rng, gcfg)
        style.end_present = True
        toks = gen.full_tokens(stmts, style)
        if nonascii:
            strs = [t for t in toks if t.kind == gen.STR and len(t.text) > 2]
            if strs:
                t = rng.choice(strs)
                k = rng.randrange(1, len(t.text) - 1)
                t.text = t.text[:k] + rng.choice(["é", "€", "日", "𝄞", "ÿ"]) \
                    + t.text[k:]
                out.inc("probe.non-ascii-label")
            else:
                nonascii = False
        damaged = rng.random() < 0.1
        if damaged and len(toks) > 3:
            del toks[rng.randrange(len(toks) - 2)]
        # no bare CR; strict parsers: LF only inside the label
        lay = gen.Layout(rng, gcfg, line_end=rng.choice(["\n", "\r\n"]))
        body = lay.render(toks)
        endi = [i for i, t in enumerate(toks) if t.kind == gen.END]
        label = body[:toks[endi[0]].end] if endi else body
        tail_kind = rng.choice(TAILS)
        if tail_kind.startswith("long-run") and rng.random() < 0.6:
            tail_kind = rng.choice(TAILS[:9])
        if cfg == "default" and rng.random() < 0.03:
            # a long label in which a multi-byte character lies across a
            # multiple of the usual I/O block size, image data right behind
            ch = rng.choice(["\u00e9", "\u20ac", "\U0001d11e"])
            blk = rng.choice([8192, 8192, 16384])
            j = rng.randrange(1, len(ch.encode()))
            label = 'PAD = "' + "x" * (blk - j - 7) + ch + ' end"\n' + label
            tail_kind = rng.choice(["binary", "high"])
            out.inc("probe.label-across-a-block-boundary")
        tail = make_tail(rng, tail_kind)
        seps = ["\n", "\r\n", " ", "\t", ";"] + (
            ["\0"] if cfg == "default" else [])
        sep = rng.choice(seps) if (tail or rng.random() < 0.7) else ""
        if not tail and not sep:
            pass
        if tail and cfg != "default" and rng.random() < 0.2:
            # image data right behind END, no separator: the first byte is
            # one the strict grammar does not allow, so it cannot continue
            # the END token (ODL/PDS3 allow every ASCII control character)
            first = rng.choice([b"\x00", b"\x01", b"\x08", b"\x0e", b"\x1f",
                                b"\x7f"] if cfg == "PVL" else
                               ["\u00e9".encode(), "\u20ac".encode(),
                                "\U0001d11e".encode(), b"\xff", b"\x80"])
            sep = ""
            tail = first + tail
            out.inc("probe.no-separator-before-disallowed-byte")
        label = label + sep
        if rng.random() < 0.05:
            # a file an editor saved with a UTF-8 byte order mark: every
            # way of handing it over must make the same thing of it
            label = "\ufeff" + label
            out.inc("probe.byte-order-mark")
        # the premise of "nothing after END matters" is an END statement:
        # if the label, as lexed, never delivers one (an unterminated
        # comment or quote in a damaged or extended-vocabulary label
        # swallows it), nothing may follow the label
        st0 = chan.ChanStats()
        ref0 = dialects.load(cfg, label, chan.make_lexer_fn([], st0))
        if not st0.end_seen:
            tail = b""
            tail_kind = "none"
        data = label.encode() + tail
        try:
            tail.decode()
        except UnicodeDecodeError:
            out.inc("probe.tail-undecodable")
        if tail_kind.startswith("long-run"):
            out.inc("probe.tail-long-run")
        api_new = cfg == "default" and rng.random() < 0.1
        ref = describe(dialects.load("new" if api_new else cfg, label))
        out.evals += 1
        case = {"label": label, "data_hex": data.hex(), "config": cfg,
                "ref": core.listify(ref)}
        if api_new:
            case["api"] = "new"
            out.inc("probe.pvl-new-entry-points")
        out.log.ev("stored", cfg, label, tail_kind, len(tail))
        if tail:
            out.nontrivial = True
        order = list(ENTRIES)
        rng.shuffle(order)
        for entry in order:
            knobs = {}
            if entry in ("text-stream", "binary-stream") and \
                    rng.random() < 0.2:
                knobs["realfile"] = True
                out.inc("probe.real-file-object")
                if entry == "text-stream" and rng.random() < 0.3:
                    knobs["newline"] = rng.choice(["", "\n"])
                if entry == "binary-stream" and rng.random() < 0.5:
                    knobs["buffer"] = rng.choice([0, 16, 8192])
                try:
                    data.decode()
                    first_bad = None
                except UnicodeDecodeError as e:
                    first_bad = e.start
                if rng.random() < 0.25 and (entry == "binary-stream" or
                                            first_bad is None or
                                            first_bad > 8192 + 64):
                    case_h = dict(case, header="HDR %d bytes\n" %
                                  rng.randrange(10 ** 6))
                    how = rng.choice(["read", "read", "readline", "next"])
                    if how != "read":
                        knobs["advance"] = how
                        out.inc("probe.pre-advanced-by-" + how)
                    out.inc("probe.pre-advanced")
                    if first_bad is not None and entry == "text-stream":
                        out.inc("probe.pre-advanced-text-with-late-binary")
                else:
                    case_h = case
                out.nontrivial = True
                out.violations.extend(
                    self.check_load(case_h, entry, knobs, out))
            elif entry in ("text-stream", "binary-stream"):
                if rng.random() < 0.7:
                    knobs["buffer"] = rng.choice([1, 2, 3, 7, 64, 8192] + (
                        [0] if entry == "binary-stream" else []))
                if rng.random() < 0.4:
                    knobs["max_read"] = rng.choice([1, 2, 3, 5, 17])
                    out.inc("probe.short-reads")
                if entry == "text-stream":
                    if rng.random() < 0.4:
                        knobs["chunk"] = rng.choice([1, 2, 3, 5, 64])
                    if rng.random() < 0.3:
                        knobs["newline"] = rng.choice(["", "\n"])
                if rng.random() < 0.2:
                    knobs["pipe"] = True
                    out.inc("probe.non-seekable")
                    out.inc("fault.non-seekable-stream")
                # a caller can only have read a header off a text stream
                # if the first chunk the text layer decodes is decodable
                try:
                    data.decode()
                    first_bad = None
                except UnicodeDecodeError as e:
                    first_bad = e.start
                reach = max(knobs.get("chunk") or 8192,
                            knobs.get("buffer") or 0) + 64
                can_pre = entry == "binary-stream" or first_bad is None \
                    or first_bad > reach
                if rng.random() < 0.2 and can_pre:
                    case_h = dict(case, header="HDR %d bytes\n" %
                                  rng.randrange(10 ** 6))
                    how = rng.choice(["read", "read", "readline", "next"])
                    if how != "read":
                        knobs["advance"] = how
                        out.inc("probe.pre-advanced-by-" + how)
                    out.inc("probe.pre-advanced")
                    out.inc("fault.pre-advanced-position")
                    if first_bad is not None and entry == "text-stream":
                        out.inc("probe.pre-advanced-text-with-late-binary")
                else:
                    case_h = case
                if rng.random() < 0.12:
                    knobs["fail_at"] = rng.randrange(len(data) + 1)
                    out.inc("probe.oserror-injected")
                    out.inc("fault.raw-read-oserror")
                if knobs:
                    out.nontrivial = True
                out.violations.extend(
                    self.check_load(case_h, entry, knobs, out))
            else:
                if entry == "pathlike" and rng.random() < 0.4:
                    knobs["pathlib"] = False
                if entry in ("path-str", "pathlike") and label.isascii() \
                        and rng.random() < 0.3 and not api_new:
                    # the documented encoding= argument; for an ASCII label
                    # none of these may change what is loaded
                    knobs["encoding"] = rng.choice(["utf-8", "latin-1",
                                                    "ascii"])
                    out.inc("probe.encoding-argument")
                out.violations.extend(self.check_load(case, entry, knobs,
                                                      out))
        # dumps of the loaded module
        if ref[0] == "ok" and len(tail) < 1000:
            case["dump_encoder"] = rng.choice(["default", "default", "PDS3",
                                               "PVL", "ODL", "ISIS"])
            for target in ("path-str", "pathlike", "text-stream",
                           "binary-stream"):
                knobs = {}
                if target in ("text-stream", "binary-stream"):
                    if rng.random() < 0.6:
                        knobs["buffer"] = rng.choice([1, 2, 16, 64, 8192])
                    if rng.random() < 0.4:
                        knobs["max_write"] = rng.choice([1, 2, 7])
                        out.inc("fault.short-writes")
                    if rng.random() < 0.2:
                        knobs["capacity"] = rng.randrange(0, 120)
                        out.inc("fault.enospc")
                    if target == "text-stream" and rng.random() < 0.3:
                        knobs["newline"] = "\n"
                    if rng.random() < 0.25:
                        knobs["prefix"] = rng.choice(
                            ["CCSD3ZF0000100000001\r\n", "HDR\n", "x"])
                        out.inc("probe.dump-after-unflushed-text")
                elif target == "pathlike" and rng.random() < 0.4:
                    knobs["pathlib"] = False
                out.violations.extend(self.check_dump(case, target, knobs,
                                                      out))
        if out.violations:
            out.inc("violations", len(out.violations))
        if index % 200 == 0:
            out.sample = {"run_index": index, "config": cfg,
                          "label": label[:300], "tail_kind": tail_kind,
                          "tail_bytes": len(tail), "order": order}
        return out

    def execute(self, case):
        try:
            if "only" in case:
                entry, knobs = case["only"]
                return self.check_load(case, entry, knobs)
            if "only_dump" in case:
                target, knobs = case["only_dump"]
                return self.check_dump(case, target, knobs)
            vs = []
            for e in ENTRIES:
                vs.extend(self.check_load(case, e, {}))
            return vs
        finally:
            iosim.SCRATCH.clean()

    def reductions(self, case):
        label = case["label"]
        data = bytes.fromhex(case["data_hex"])
        lb = label.encode()
        tail = data[len(lb):]
        # knobs off, one at a time
        key = "only" if "only" in case else "only_dump"
        if key in case:
            ent, knobs = case[key]
            for k in list(knobs):
                nk = {a: b for a, b in knobs.items() if a != k}
                yield dict(case, **{key: [ent, nk]})
        if case.get("header"):
            yield dict(case, header="")
        # shorter tails
        separated = label[-1:] in ("\n", " ", "\t", ";", "\0")
        for t2 in (b"", tail[:len(tail) // 2], tail[:8], tail[:1],
                   tail[len(tail) // 2:]):
            if not separated and t2 and t2[:1] != tail[:1]:
                continue    # the byte right behind END must stay what it is
            if t2 != tail:
                yield dict(case, data_hex=(lb + t2).hex())
        # fewer label lines (reference recomputed)
        lines = label.split("\n")
        for j in range(len(lines) - 1, -1, -1):
            nl = "\n".join(lines[:j] + lines[j + 1:])
            if not nl.strip():
                continue
            st0 = chan.ChanStats()
            ref = describe(dialects.load(
                "new" if case.get("api") == "new" else
                case.get("config", "default"), nl,
                chan.make_lexer_fn([], st0)))
            if ref[0] != "ok" or (tail and not st0.end_seen):
                continue        # the premise (an END statement) must stay
            if tail and nl[-1:] not in ("\n", " ", "\t", ";", "\0"):
                continue        # ... and so must the separator after it
            yield dict(case, label=nl, data_hex=(nl.encode() + tail).hex(),
                       ref=core.listify(ref))

    def signature(self, case, v):
        return v.raw_sig


PROP = C09()
