"""Engine E2: simulated raw streams under CPython's real io.BufferedReader /
BufferedWriter / TextIOWrapper, scratch files, simulated stdin/stdout.

SimRaw is a byte array posing as a raw file.  Knobs (all seeded by the
caller): maximum bytes returned per raw read (short reads), seekability (a
pipe is not seekable), an offset at which the raw layer raises OSError
(disk error), and for writers short writes and a capacity (full disk).
"""
import errno
import io
import os
import shutil
import tempfile


class SimRaw(io.RawIOBase):
    def __init__(self, data=b"", max_read=None, seekable=True, fail_at=None,
                 read_sizes=None):
        super().__init__()
        self.data = bytes(data)
        self.pos = 0
        self.max_read = max_read
        self._seekable = seekable
        self.fail_at = fail_at
        self.read_sizes = list(read_sizes) if read_sizes else None
        self.n_reads = 0
        self.n_seeks = 0
        self.n_tells = 0
        self.bytes_served = 0
        self.failed = False

    def readable(self):
        return True

    def seekable(self):
        return self._seekable

    def readinto(self, b):
        self.n_reads += 1
        n = len(b)
        if self.read_sizes:
            n = min(n, self.read_sizes[self.n_reads % len(self.read_sizes)])
        elif self.max_read:
            n = min(n, self.max_read)
        if self.fail_at is not None and self.pos + n > self.fail_at:
            if self.pos >= self.fail_at:
                self.failed = True
                raise OSError(errno.EIO, "simulated I/O error at byte %d"
                              % self.fail_at)
            n = self.fail_at - self.pos
        chunk = self.data[self.pos:self.pos + n]
        b[:len(chunk)] = chunk
        self.pos += len(chunk)
        self.bytes_served += len(chunk)
        return len(chunk)

    def seek(self, offset, whence=0):
        if not self._seekable:
            raise io.UnsupportedOperation("underlying stream is not seekable")
        self.n_seeks += 1
        if whence == 0:
            self.pos = offset
        elif whence == 1:
            self.pos += offset
        else:
            self.pos = len(self.data) + offset
        self.pos = max(0, self.pos)
        return self.pos

    def tell(self):
        if not self._seekable:
            raise io.UnsupportedOperation("underlying stream is not seekable")
        self.n_tells += 1
        return self.pos


class SimRawW(io.RawIOBase):
    """Write side: collects bytes; short writes; OSError at a capacity."""

    def __init__(self, max_write=None, capacity=None, seekable=True):
        super().__init__()
        self.buf = bytearray()
        self.max_write = max_write
        self.capacity = capacity
        self._seekable = seekable
        self.n_writes = 0
        self.failed = False

    def writable(self):
        return True

    def seekable(self):
        return self._seekable

    def write(self, b):
        self.n_writes += 1
        n = len(b)
        if self.max_write:
            n = min(n, self.max_write)
        if self.capacity is not None and len(self.buf) + n > self.capacity:
            room = self.capacity - len(self.buf)
            if room <= 0:
                self.failed = True
                raise OSError(errno.ENOSPC, "simulated: no space left")
            n = room
        self.buf += bytes(b[:n])
        return n

    def tell(self):
        return len(self.buf)


def binary_reader(data, buffer_size=8192, **raw_kw):
    raw = SimRaw(data, **raw_kw)
    if buffer_size == 0:
        return raw, raw
    return io.BufferedReader(raw, buffer_size=max(1, buffer_size)), raw


def text_reader(data, buffer_size=8192, chunk=None, newline=None,
                encoding="utf-8", **raw_kw):
    b, raw = binary_reader(data, buffer_size or 1, **raw_kw)
    t = io.TextIOWrapper(b, encoding=encoding, newline=newline)
    if chunk:
        t._CHUNK_SIZE = chunk
    return t, raw


class Scratch:
    """Per-process scratch directory for the path / URL entry points."""

    def __init__(self):
        self.dir = None
        self.n = 0

    def path(self, name=None):
        if self.dir is None or not os.path.isdir(self.dir):
            self.dir = tempfile.mkdtemp(prefix="verif-io-")
        self.n += 1
        return os.path.join(self.dir, name or ("f%d.lbl" % self.n))

    def put(self, data, name=None):
        p = self.path(name)
        with open(p, "wb") as f:
            f.write(data)
        return p

    def clean(self):
        if self.dir and os.path.isdir(self.dir):
            shutil.rmtree(self.dir, ignore_errors=True)
        self.dir = None


SCRATCH = Scratch()

import atexit  # noqa: E402
atexit.register(SCRATCH.clean)
