"""Simulator core shared by all engines: seeds, step meter, canonical forms,
guarded execution, run records.  See DESIGN.md section 2.

Everything a run decides comes from one random.Random seeded from
(property, VERIF_SEED, run index).  Nothing here reads a clock to make a
decision; time.time() is used only to report wall_s in the evidence.
"""
import hashlib
import os
import random
import sys
import warnings

REPO = os.path.abspath(os.environ.get("VERIF_REPO", "/repo"))
VERIF = os.path.dirname(os.path.dirname(os.path.abspath(__file__)))
if REPO in sys.path:
    sys.path.remove(REPO)
sys.path.insert(0, REPO)
if VERIF not in sys.path:
    sys.path.insert(1, VERIF)

warnings.simplefilter("ignore")

import pvl  # noqa: E402
import pvl.parser  # noqa: E402
import pvl.collections  # noqa: E402
from pvl.exceptions import LexerError, ParseError  # noqa: E402

PVLDIR = os.path.join(REPO, "pvl") + os.sep
assert os.path.abspath(pvl.__file__).startswith(PVLDIR), (
    "pvl imported from %s, expected under %s" % (pvl.__file__, PVLDIR))


# --------------------------------------------------------------------------
# exceptions owned by the simulator.  They derive from BaseException because
# pvl.parser.parse_module has ``except Exception: pass``.

class SimStall(BaseException):
    """The deterministic step budget of a load was exhausted."""


class SimAbort(BaseException):
    """An in-flight abort injected by the simulator (C16)."""


# --------------------------------------------------------------------------
# seeds

def run_seed(prop_id: str, master: int, index: int) -> int:
    h = hashlib.sha256(f"{prop_id}|{master}|{index}".encode()).hexdigest()
    return int(h[:16], 16)


def make_rng(prop_id: str, master: int, index: int) -> random.Random:
    return random.Random(run_seed(prop_id, master, index))


# --------------------------------------------------------------------------
# step meter: counts LINE events of code objects under /repo/pvl

_mon = sys.monitoring
_TOOL = _mon.PROFILER_ID


class StepMeter:
    def __init__(self):
        self.total = 0          # lifetime count (evidence)
        self.count = 0          # count inside the current budget window
        self.budget = 0
        self.active = False
        self.tripped = False
        self.where = None
        self.installed = False
        # pre-emption: (k, fn) - at the k-th line event of the current
        # window fn() runs to completion, as another caller thread would
        # if the interpreter switched threads right there
        self.preempt = None
        self.preempted = 0

    def install(self):
        if self.installed:
            return
        try:
            _mon.use_tool_id(_TOOL, "verif-stepmeter")
        except ValueError:
            _mon.free_tool_id(_TOOL)
            _mon.use_tool_id(_TOOL, "verif-stepmeter")
        _mon.register_callback(_TOOL, _mon.events.LINE, self._line)
        self.installed = True

    def _line(self, code, lineno):
        if not code.co_filename.startswith(PVLDIR):
            return _mon.DISABLE
        if not self.active:
            return None
        self.count += 1
        if self.preempt is not None and self.count >= self.preempt[0]:
            fn = self.preempt[1]
            self.preempt = None
            self.active = False     # the other caller's steps are its own
            try:
                fn()
            except Exception:       # noqa: BLE001  (its failure is its own)
                pass
            finally:
                self.active = True
                self.preempted += 1
        if self.count > self.budget and not self.tripped:
            self.tripped = True
            self.where = "%s:%d" % (code.co_name, lineno)
            raise SimStall(self.where)
        return None

    def begin(self, budget: int):
        self.install()
        self.count = 0
        self.budget = budget
        self.tripped = False
        self.where = None
        self.active = True
        _mon.set_events(_TOOL, _mon.events.LINE)

    def end(self) -> int:
        self.preempt = None
        if self.active:
            self.active = False
            _mon.set_events(_TOOL, 0)
            self.total += self.count
        return self.count


METER = StepMeter()

STEP_FACTOR = 4000   # line events allowed per input character (observed ~95)
STEP_SLACK = 50


def step_budget(nchars: int) -> int:
    return STEP_FACTOR * (nchars + STEP_SLACK)


# --------------------------------------------------------------------------
# guarded execution of one piece of pvl code

class Outcome:
    """Result of one guarded call.

    kind: 'ok' | 'LexerError' | 'ParseError' | 'exc' | 'stall' | 'abort'
    """
    __slots__ = ("kind", "value", "exc", "where", "steps")

    def __init__(self, kind, value=None, exc=None, where=None, steps=0):
        self.kind = kind
        self.value = value
        self.exc = exc
        self.where = where
        self.steps = steps

    def documented(self):
        return self.kind in ("ok", "LexerError", "ParseError")

    def brief(self):
        if self.kind == "ok":
            return "ok"
        if self.kind in ("LexerError", "ParseError"):
            return self.kind
        if self.kind == "exc":
            return "exc:%s@%s" % (type(self.exc).__name__, self.where)
        return "%s@%s" % (self.kind, self.where)


def innermost_pvl_frame(exc) -> str:
    tb = exc.__traceback__
    where = "?"
    while tb is not None:
        fn = tb.tb_frame.f_code.co_filename
        if fn.startswith(PVLDIR):
            where = "%s.%s" % (os.path.basename(fn)[:-3],
                               tb.tb_frame.f_code.co_name)
        tb = tb.tb_next
    return where


def guarded(fn, nchars: int, preempt=None) -> Outcome:
    """Run fn() under the step meter with a budget computed from nchars.
    preempt: (k, other) - other() runs at the k-th line event of fn()."""
    METER.begin(step_budget(nchars))
    METER.preempt = preempt
    try:
        v = fn()
        steps = METER.end()
        if METER.tripped:
            # the stall exception was swallowed somewhere (bare except)
            return Outcome("stall", where=METER.where, steps=steps)
        return Outcome("ok", value=v, steps=steps)
    except SimStall:
        steps = METER.end()
        return Outcome("stall", where=METER.where, steps=steps)
    except SimAbort as e:
        steps = METER.end()
        return Outcome("abort", exc=e, where=str(e), steps=steps)
    except LexerError as e:
        steps = METER.end()
        if METER.tripped:
            return Outcome("stall", where=METER.where, steps=steps)
        return Outcome("LexerError", exc=e, steps=steps)
    except ParseError as e:
        steps = METER.end()
        if METER.tripped:
            return Outcome("stall", where=METER.where, steps=steps)
        return Outcome("ParseError", exc=e, steps=steps)
    except RecursionError as e:
        steps = METER.end()
        return Outcome("exc", exc=e, where="recursion", steps=steps)
    except Exception as e:
        steps = METER.end()
        if METER.tripped:
            return Outcome("stall", where=METER.where, steps=steps)
        return Outcome("exc", exc=e, where=innermost_pvl_frame(e),
                       steps=steps)
    finally:
        METER.end()


# --------------------------------------------------------------------------
# canonical, type-exact forms of pvl results

import datetime as _dt  # noqa: E402

_OMD = pvl.collections.OrderedMultiDict
_Quantity = pvl.collections.Quantity
_Empty = pvl.parser.EmptyValueAtLine
_PMD = getattr(pvl.collections, "PVLMultiDict", None)   # needs multidict


def class_tag(v):
    """Container class name; a user's subclass counts as its library base
    (the parsers accept module_class/group_class/object_class)."""
    tag = getattr(type(v), "_verif_tag", None)
    if tag is not None:
        return tag
    for base in (pvl.collections.PVLGroup, pvl.collections.PVLObject,
                 pvl.collections.PVLModule):
        if isinstance(v, base):
            return base.__name__
    return type(v).__name__


def canon(v, _d=0):
    """Type-exact canonical form (nested tuples, JSON-able after listify)."""
    if _d > 24:
        return ("too-deep-or-cyclic",)
    if isinstance(v, _OMD):
        return (class_tag(v),
                tuple((k, canon(x, _d + 1)) for k, x in list(v)))
    if _PMD is not None and isinstance(v, _PMD):
        return (type(v).__name__,
                tuple((k, canon(x, _d + 1)) for k, x in list(v.items())))
    if isinstance(v, _Quantity):
        return ("Quantity", canon(v.value, _d + 1), ("str", str(v.units)))
    if isinstance(v, list):
        return ("list", tuple(canon(x, _d + 1) for x in v))
    if isinstance(v, tuple):
        return ("tuple", tuple(canon(x, _d + 1) for x in v))
    if isinstance(v, (set, frozenset)):
        return ("set", tuple(sorted((canon(x, _d + 1) for x in v),
                                    key=repr)))
    if isinstance(v, _Empty):
        return ("empty", v.lineno)
    if isinstance(v, dict):
        return ("dict", tuple((k, canon(x, _d + 1)) for k, x in v.items()))
    if v is None:
        return ("none",)
    if isinstance(v, bool):
        return ("bool", v)
    if isinstance(v, int):
        return ("int", v)
    if isinstance(v, float):
        return ("float", repr(v))
    if isinstance(v, str):
        return ("str", str(v))
    if isinstance(v, _dt.datetime):
        return ("datetime", v.isoformat())
    if isinstance(v, _dt.date):
        return ("date", v.isoformat())
    if isinstance(v, _dt.time):
        return ("time", v.isoformat())
    return (type(v).__name__, repr(v))


def short(v, depth=3):
    """Depth-limited repr that never calls pvl's own __repr__ (a damaged
    container may be cyclic)."""
    if isinstance(v, _OMD):
        if depth <= 0:
            return type(v).__name__ + "(...)"
        try:
            items = list(v)
        except Exception as e:  # noqa: BLE001
            return "%s(<iteration raised %s>)" % (type(v).__name__,
                                                  type(e).__name__)
        return "%s[%s]" % (type(v).__name__, ", ".join(
            short(i, depth - 1) for i in items[:12]) + (
                ", ...+%d" % (len(items) - 12) if len(items) > 12 else ""))
    if isinstance(v, (list, tuple, set, frozenset)):
        if depth <= 0:
            return "[...]"
        o, c = ("(", ")") if isinstance(v, tuple) else (
            ("[", "]") if isinstance(v, list) else ("{", "}"))
        return o + ", ".join(short(i, depth - 1) for i in list(v)[:12]) + c
    try:
        r = repr(v)
    except Exception as e:  # noqa: BLE001
        r = "<repr raised %s>" % type(e).__name__
    return r if len(r) < 80 else r[:77] + "..."


def listify(x):
    """tuples -> lists so that json can carry a canonical form."""
    if isinstance(x, (tuple, list)):
        return [listify(i) for i in x]
    return x


def tuplify(x):
    if isinstance(x, (tuple, list)):
        return tuple(tuplify(i) for i in x)
    return x


# --------------------------------------------------------------------------
# run records

class Violation:
    __slots__ = ("cls", "detail", "case", "raw_sig")

    def __init__(self, cls, detail, case, raw_sig=None):
        self.cls = cls          # violation class, e.g. "wrong-return"
        self.detail = detail    # human text
        self.case = case        # explicit, JSON-able, replayable case
        self.raw_sig = raw_sig or cls

    def to_json(self):
        return {"cls": self.cls, "detail": self.detail, "case": self.case,
                "raw_sig": self.raw_sig}

    @staticmethod
    def from_json(d):
        return Violation(d["cls"], d["detail"], d["case"], d.get("raw_sig"))


class RunLog:
    """Event log of one run.  Logging never draws from the PRNG."""

    def __init__(self):
        self.full = hashlib.sha256()
        self.core = hashlib.sha256()
        self.n = 0

    def ev(self, *parts, core=True):
        self.n += 1
        line = ("%d|" % self.n + "|".join(
            p if isinstance(p, str) else repr(p) for p in parts)).encode(
                "utf-8", "backslashreplace")
        self.full.update(line)
        if core:
            self.core.update(line)

    def digests(self):
        return (int(self.core.hexdigest()[:15], 16),
                int(self.full.hexdigest()[:15], 16))


class RunOut:
    """What one simulated run reports back."""

    def __init__(self):
        self.log = RunLog()
        self.stats = {}          # counters: faults fired, probes, outcomes
        self.violations = []
        self.nontrivial = False
        self.evals = 0           # executions of real pvl code in this run
        self.sample = None

    def inc(self, key, n=1):
        self.stats[key] = self.stats.get(key, 0) + n


class Property:
    """Interface every property module implements."""
    ID = "C00"
    LEVEL = "exploration"
    RUNS = {"quick": 100, "thorough": 1000}
    CHUNK = 200
    RULE = ""
    ASSUMPTIONS = []
    COMPONENTS_REAL = []
    COMPONENTS_STUB = []
    REQUIRED_PROBES = []     # probes that must be > 0 in a thorough run

    def run(self, rng, index, tier) -> RunOut:
        raise NotImplementedError

    def execute(self, case) -> list:
        """Re-execute one explicit case; returns its violations."""
        raise NotImplementedError

    def reductions(self, case):
        return iter(())

    def signature(self, case, violation) -> str:
        return violation.raw_sig
