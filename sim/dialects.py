"""The five parser configurations, exactly those of pvl_validate.dialects
(DESIGN 3.1), built fresh on every call."""
from . import core  # noqa: F401
import pvl
import pvl.new
from pvl.grammar import (PVLGrammar, ODLGrammar, PDSGrammar, ISISGrammar,
                         OmniGrammar)
from pvl.decoder import PVLDecoder, ODLDecoder, PDSLabelDecoder, OmniDecoder
from pvl.parser import PVLParser, ODLParser, OmniParser
from pvl.encoder import PVLEncoder, ODLEncoder, PDSLabelEncoder, ISISEncoder

CONFIGS = ["PVL", "ODL", "PDS3", "ISIS", "default"]


class UserModule(pvl.PVLModule):
    """Container classes a caller may hand to the parsers."""


class UserGroup(pvl.PVLGroup):
    pass


class UserObject(pvl.PVLObject):
    pass


CUSTOM = dict(module_class=UserModule, group_class=UserGroup,
              object_class=UserObject)


class PlainModule(pvl.collections.OrderedMultiDict):
    """Container classes that do not derive from PVLModule / PVLGroup /
    PVLObject: the parsers document any MutableMappingSequence."""
    _verif_tag = "PVLModule"


class PlainGroup(pvl.collections.OrderedMultiDict):
    _verif_tag = "PVLGroup"


class PlainObject(pvl.collections.OrderedMultiDict):
    _verif_tag = "PVLObject"


PLAIN = dict(module_class=PlainModule, group_class=PlainGroup,
             object_class=PlainObject)


def custom_kw(custom):
    """custom: False/None, True (subclasses of the PVL classes) or "plain"
    (bare OrderedMultiDict subclasses)."""
    if not custom:
        return {}
    return dict(PLAIN) if custom == "plain" else dict(CUSTOM)


STRICT = ["PVL", "ODL", "PDS3"]


class UserQuantity:
    """A caller's quantity class for the decoders' quantity_cls option."""

    def __init__(self, value, units):
        self.value = value
        self.units = units


def make_parser(config, lexer_fn=None, custom=False):
    dkw = {}
    if custom == "decimal":
        # the decoders' documented options instead of container classes
        import decimal
        dkw = {"quantity_cls": UserQuantity}
        if config != "PDS3":
            dkw["real_cls"] = decimal.Decimal
        custom = False
    kw = custom_kw(custom)
    if config == "PVL":
        g = PVLGrammar()
        return PVLParser(grammar=g, decoder=PVLDecoder(grammar=g, **dkw),
                         lexer_fn=lexer_fn, **kw)
    if config == "ODL":
        g = ODLGrammar()
        return ODLParser(grammar=g, decoder=ODLDecoder(grammar=g, **dkw),
                         lexer_fn=lexer_fn, **kw)
    if config == "PDS3":
        g = PDSGrammar()
        return ODLParser(grammar=g, decoder=PDSLabelDecoder(grammar=g, **dkw),
                         lexer_fn=lexer_fn, **kw)
    if config == "ISIS":
        g = ISISGrammar()
        return OmniParser(grammar=g, decoder=OmniDecoder(grammar=g, **dkw),
                          lexer_fn=lexer_fn, **kw)
    if config == "default":
        if dkw:
            g = OmniGrammar()
            return OmniParser(grammar=g, decoder=OmniDecoder(grammar=g, **dkw),
                              lexer_fn=lexer_fn, **kw)
        return OmniParser(lexer_fn=lexer_fn, **kw)
    raise ValueError(config)


def make_grammar(config):
    return {"PVL": PVLGrammar, "ODL": ODLGrammar, "PDS3": PDSGrammar,
            "ISIS": ISISGrammar, "default": OmniGrammar}[config]()


def make_encoder(config, **kw):
    if config == "PVL":
        g = PVLGrammar()
        return PVLEncoder(grammar=g, decoder=PVLDecoder(grammar=g), **kw)
    if config == "ODL":
        g = ODLGrammar()
        return ODLEncoder(grammar=g, decoder=ODLDecoder(grammar=g), **kw)
    if config == "PDS3":
        g = PDSGrammar()
        return PDSLabelEncoder(grammar=g, decoder=PDSLabelDecoder(grammar=g),
                               **kw)
    if config == "ISIS":
        g = ISISGrammar()
        return ISISEncoder(grammar=g, decoder=OmniDecoder(grammar=g), **kw)
    if config == "default":
        g = OmniGrammar()
        return PVLEncoder(grammar=g, decoder=OmniDecoder(grammar=g), **kw)
    raise ValueError(config)


def load(config, text, lexer_fn=None, custom=False):
    """One guarded load: returns core.Outcome.  *custom*: hand the parser
    user subclasses as module/group/object classes."""
    if config == "new":
        # the default configuration with the pvl.new container classes
        # (documented module_class/group_class/object_class arguments)
        kw = {} if lexer_fn is None else {"lexer_fn": lexer_fn}
        return core.guarded(lambda: pvl.new.loads(text, **kw), len(text))
    if config == "default" and lexer_fn is None and custom != "decimal":
        if custom:
            kw = custom_kw(custom)
            return core.guarded(lambda: pvl.loads(text, **kw), len(text))
        return core.guarded(lambda: pvl.loads(text), len(text))
    p = make_parser(config, lexer_fn, custom)
    return core.guarded(lambda: pvl.loads(text, parser=p), len(text))


def load_route(config, text, route="parser"):
    """The strict dialects can be selected in four documented ways."""
    if route in ("bytes", "binary-stream"):
        # the same text handed over as UTF-8 bytes / a binary stream
        try:
            data = text.encode()
        except UnicodeEncodeError:      # lone surrogates have no bytes
            return load(config, text)
        p = make_parser(config)
        if route == "bytes":
            return core.guarded(lambda: pvl.loads(data, parser=p), len(text))
        import io
        return core.guarded(lambda: pvl.load(io.BytesIO(data), parser=p),
                            len(text))
    if route == "parser" or config in ("ISIS", "default"):
        return load(config, text)
    G = {"PVL": PVLGrammar, "ODL": ODLGrammar, "PDS3": PDSGrammar}[config]
    D = {"PVL": PVLDecoder, "ODL": ODLDecoder, "PDS3": PDSLabelDecoder}[config]
    if route == "grammar":
        return core.guarded(lambda: pvl.loads(text, grammar=G()), len(text))
    if route == "decoder":
        return core.guarded(lambda: pvl.loads(text, decoder=D()), len(text))
    if route == "mismatch":
        # grammar= of the strict dialect, decoder= built for another one:
        # the character set is the grammar's business
        g = G()
        return core.guarded(lambda: pvl.loads(
            text, grammar=g, decoder=OmniDecoder(grammar=OmniGrammar())),
            len(text))
    if route == "both":
        g = G()
        return core.guarded(lambda: pvl.loads(text, grammar=g,
                                              decoder=D(grammar=g)),
                            len(text))
    raise ValueError(route)
