"""The five parser configurations, exactly those of pvl_validate.dialects
(DESIGN 3.1), built fresh on every call."""
from . import core  # noqa: F401
import pvl
from pvl.grammar import (PVLGrammar, ODLGrammar, PDSGrammar, ISISGrammar,
                         OmniGrammar)
from pvl.decoder import PVLDecoder, ODLDecoder, PDSLabelDecoder, OmniDecoder
from pvl.parser import PVLParser, ODLParser, OmniParser
from pvl.encoder import PVLEncoder, ODLEncoder, PDSLabelEncoder, ISISEncoder

CONFIGS = ["PVL", "ODL", "PDS3", "ISIS", "default"]
STRICT = ["PVL", "ODL", "PDS3"]


def make_parser(config, lexer_fn=None):
    if config == "PVL":
        g = PVLGrammar()
        return PVLParser(grammar=g, decoder=PVLDecoder(grammar=g),
                         lexer_fn=lexer_fn)
    if config == "ODL":
        g = ODLGrammar()
        return ODLParser(grammar=g, decoder=ODLDecoder(grammar=g),
                         lexer_fn=lexer_fn)
    if config == "PDS3":
        g = PDSGrammar()
        return ODLParser(grammar=g, decoder=PDSLabelDecoder(grammar=g),
                         lexer_fn=lexer_fn)
    if config == "ISIS":
        g = ISISGrammar()
        return OmniParser(grammar=g, decoder=OmniDecoder(grammar=g),
                          lexer_fn=lexer_fn)
    if config == "default":
        return OmniParser(lexer_fn=lexer_fn)
    raise ValueError(config)


def make_grammar(config):
    return {"PVL": PVLGrammar, "ODL": ODLGrammar, "PDS3": PDSGrammar,
            "ISIS": ISISGrammar, "default": OmniGrammar}[config]()


def make_encoder(config, **kw):
    if config == "PVL":
        g = PVLGrammar()
        return PVLEncoder(grammar=g, decoder=PVLDecoder(grammar=g), **kw)
    if config == "ODL":
        g = ODLGrammar()
        return ODLEncoder(grammar=g, decoder=ODLDecoder(grammar=g), **kw)
    if config == "PDS3":
        g = PDSGrammar()
        return PDSLabelEncoder(grammar=g, decoder=PDSLabelDecoder(grammar=g),
                               **kw)
    if config == "ISIS":
        g = ISISGrammar()
        return ISISEncoder(grammar=g, decoder=OmniDecoder(grammar=g), **kw)
    if config == "default":
        g = OmniGrammar()
        return PVLEncoder(grammar=g, decoder=OmniDecoder(grammar=g), **kw)
    raise ValueError(config)


def load(config, text, lexer_fn=None):
    """One guarded load: returns core.Outcome."""
    if config == "default" and lexer_fn is None:
        return core.guarded(lambda: pvl.loads(text), len(text))
    p = make_parser(config, lexer_fn)
    return core.guarded(lambda: pvl.loads(text, parser=p), len(text))
