"""Seeded generator of container operation histories (engine E3).

The generator looks at the *model* state to bias choices towards the
situations the properties care about (duplicated keys, duplicates with a
foreign key in between, operations that must fail), draws every choice from
the run's PRNG, and emits JSON-able operations that listmodel.Machine
executes on the real container and on the model.
"""
from .listmodel import KEYS, MC

CLASS_NAMES = ["OrderedMultiDict", "PVLModule", "PVLGroup", "PVLObject",
               "PVLModule", "PVLGroup", "PVLObject",
               "MyModule", "MyGroup", "MyObject"]

ALL_OPS = ["append", "setitem", "delitem", "pop0", "popk", "popkd", "popall",
           "popalld", "popitem", "setdefault", "setdefault0", "discard",
           "clear", "extend", "update", "insert", "insert_before",
           "insert_after", "new"]


def key_state(mc, k):
    pos = mc.positions(k)
    if not pos:
        return "absent"
    if len(pos) == 1:
        return "once"
    if pos[-1] - pos[0] + 1 > len(pos):
        return "dup-foreign-between"
    return "dup"


def reaches(mc, target_id, seen=None):
    """True if the model container *mc* contains (transitively) the
    container with id *target_id*: inserting mc there would make a cycle."""
    if mc.id == target_id:
        return True
    seen = seen if seen is not None else set()
    if mc.id in seen:
        return False
    seen.add(mc.id)
    return any(isinstance(v, MC) and reaches(v, target_id, seen)
               for _, v in mc.items)


class HistGen:
    def __init__(self, rng, machine, extra_ops=(), scalar=None,
                 classes=None):
        self.rng = rng
        self.m = machine
        self.vcount = 0
        self.idcount = 0
        self.nkeys = rng.choice([1, 2, 2, 3, 4, 5])
        self.classes = classes or CLASS_NAMES
        self.pnest = rng.choice([0.0, 0.1, 0.25])
        self.pref = rng.choice([0.0, 0.05, 0.15])
        self.pfail = rng.choice([0.05, 0.15, 0.3])
        ops = ALL_OPS + list(extra_ops)
        # swarm: each run enables a random subset with random weights
        self.weights = {}
        for o in ops:
            if rng.random() < 0.75:
                self.weights[o] = rng.choice([1, 1, 2, 4])
        for o in ("append", "new"):
            self.weights.setdefault(o, 1)
        for o in extra_ops:
            self.weights[o] = rng.choice([2, 4, 6])
        self.scalar = scalar or self.unique_int

    # -- ingredients
    def new_id(self):
        self.idcount += 1
        return self.idcount

    def unique_int(self):
        # mostly unique (every read attributable to one write), but equal
        # values under one key are a situation of their own, and so are
        # values that are false in a boolean context
        if self.rng.random() < self.p_falsy:
            return self.rng.choice([0, {"none": 1}, {"s": ""}, False,
                                    {"f": 0.0}])
        if self.vcount and self.rng.random() < self.p_repeat:
            return self.rng.randint(1, self.vcount)
        self.vcount += 1
        return self.vcount

    p_repeat = 0.12
    p_falsy = 0.06

    def key(self, mc=None, want_present=None):
        r = self.rng
        pool = KEYS[:self.nkeys]
        if mc is not None and want_present is not None:
            present = sorted(set(mc.keys()))
            if want_present and present:
                return r.choice(present)
            if not want_present:
                absent = [k for k in KEYS if k not in present]
                if absent:
                    return r.choice(absent)
        return r.choice(pool)

    def value(self, target_id, depth=0):
        r = self.rng
        x = r.random()
        if depth < 2 and x < self.pnest:
            return self.new_spec(depth + 1)
        if x < self.pnest + self.pref:
            # reference an existing container with a larger id: acyclic
            cands = [i for i in self.m.reg
                     if target_id in self.m.reg and i != target_id and
                     not reaches(self.m.reg[i][1], target_id)]
            if cands:
                return {"ref": r.choice(sorted(cands, key=str))}
        return self.scalar()

    def new_spec(self, depth):
        r = self.rng
        cid = self.new_id()
        n = r.choice([0, 1, 1, 2, 3])
        return {"new": r.choice(self.classes[1:] if depth else self.classes),
                "id": cid,
                "pairs": [[self.key(), self.value(cid, depth)]
                          for _ in range(n)]}

    def pairs(self, target_id, nmax=3, nmin=0):
        n = self.rng.randint(nmin, nmax)
        return [[self.key(), self.value(target_id, 1)] for _ in range(n)]

    def target(self):
        r = self.rng
        ids = sorted(self.m.reg, key=str)
        tops = [i for i in ids if i in self.tops]
        if tops and r.random() < 0.7:
            return r.choice(tops)
        return r.choice(ids)

    tops = ()

    # -- one operation
    def next_op(self):
        r = self.rng
        if not self.m.reg:
            return self.op_new(top=True)
        names = sorted(self.weights)
        name = r.choices(names, [self.weights[n] for n in names])[0]
        if name == "new":
            return self.op_new(top=True)
        cid = self.target()
        mc = self.m.reg[cid][1]
        fail = r.random() < self.pfail
        return getattr(self, "g_" + name)(cid, mc, fail)

    def op_new(self, top=False):
        r = self.rng
        cid = self.new_id()
        form = r.choice(["pairs", "pairs", "tuplepairs", "listpairs",
                         "mapping", "kwargs", "omd", "copyctor",
                         "iterpairs", "itemsobj", "mixed"])
        cls = r.choice(self.classes)
        if form == "copyctor":
            if not self.m.reg:
                form = "pairs"
            else:
                src = r.choice(sorted(self.m.reg, key=str))
                if top:
                    self.tops = tuple(self.tops) + (cid,)
                return ["new", cid, cls, "copyctor", src]
        if top:
            self.tops = tuple(self.tops) + (cid,)
        return ["new", cid, cls, form, self.pairs(cid, 4)]

    def g_append(self, cid, mc, fail):
        return ["append", cid, self.key(), self.value(cid)]

    def g_setitem(self, cid, mc, fail):
        return ["setitem", cid, self.key(mc, self.rng.random() < 0.7),
                self.value(cid)]

    def g_delitem(self, cid, mc, fail):
        return ["delitem", cid, self.key(mc, not fail)]

    def g_pop0(self, cid, mc, fail):
        return ["pop", cid]

    def g_popk(self, cid, mc, fail):
        return ["pop", cid, self.key(mc, not fail)]

    def g_popkd(self, cid, mc, fail):
        return ["pop", cid, self.key(mc, not fail), "d"]

    def g_popall(self, cid, mc, fail):
        return ["popall", cid, self.key(mc, not fail)]

    def g_popalld(self, cid, mc, fail):
        return ["popall", cid, self.key(mc, not fail), "d"]

    def g_popitem(self, cid, mc, fail):
        return ["popitem", cid]

    def g_setdefault(self, cid, mc, fail):
        return ["setdefault", cid, self.key(mc, self.rng.random() < 0.5),
                self.value(cid)]

    def g_setdefault0(self, cid, mc, fail):
        return ["setdefault", cid, self.key(mc, self.rng.random() < 0.5)]

    def g_discard(self, cid, mc, fail):
        return ["discard", cid, self.key(mc, self.rng.random() < 0.7)]

    def g_clear(self, cid, mc, fail):
        return ["clear", cid]

    def g_extend(self, cid, mc, fail):
        r = self.rng
        if fail:
            x = r.random()
            if x < 0.4:
                return ["extend", cid, "malformed", r.choice([0, 1])]
            if x < 0.6:
                return ["extend", cid, "twoargs", 0]
        form = r.choice(["pairs", "tuplepairs", "listpairs", "mapping",
                         "kwargs", "omd", "iterpairs", "itemsobj",
                         "mixed"])
        return ["extend", cid, form, self.pairs(cid, 3)]

    def g_update(self, cid, mc, fail):
        form = self.rng.choice(["pairs", "tuplepairs", "listpairs",
                                "mapping", "kwargs", "iterpairs", "mixed"])
        return ["update", cid, form, self.pairs(cid, 3)]

    def _ins_payload(self, cid, fail):
        r = self.rng
        if fail and r.random() < 0.4:
            return "malformed", r.choice([0, 1, 2, 3])
        form = r.choice(["3arg", "pair", "listpair", "pairs", "pairs",
                         "tuplepairs", "listpairs", "mapping", "omd"])
        if form in ("3arg", "pair", "listpair"):
            return form, self.pairs(cid, 1, 1)
        return form, self.pairs(cid, 3)

    def g_insert(self, cid, mc, fail):
        r = self.rng
        n = len(mc.items)
        if fail and r.random() < 0.4:
            index = r.choice(["x", None, 1.5])
        else:
            index = r.choice([0, n, -1, -n, n + 3, -n - 3,
                              r.randint(-n - 1, n + 1)])
        form, payload = self._ins_payload(cid, fail)
        return ["insert", cid, index, form, payload]

    def _rel(self, name, cid, mc, fail):
        r = self.rng
        key = self.key(mc, not (fail and r.random() < 0.5))
        cnt = len(mc.positions(key))
        x = r.random()
        if x < 0.4:
            inst = None
        elif fail and x < 0.7:
            inst = r.choice([cnt, cnt + 2, -cnt - 1])
        else:
            inst = r.randint(-cnt, cnt - 1) if cnt else 0
        form, payload = self._ins_payload(cid, fail)
        return [name, cid, key, inst, form, payload]

    MECHS = ["method", "copy.copy", "deepcopy", "pickle0", "pickle1",
             "pickle2", "pickle3", "pickle4", "pickle5"]

    def g_copy(self, cid, mc, fail):
        nid = self.new_id()
        self.tops = tuple(self.tops) + (nid,)
        mech = self.rng.choice(self.MECHS)
        if self.rng.random() < self.p_restart:
            mech = "xpickle" + self.rng.choice("245")
        if self.rng.random() < 0.15:
            # the container carries instance attributes, as every module a
            # loader returns does (.errors)
            return ["copy", cid, mech, nid, self.rng.choice([
                {"errors": []}, {"errors": [3, 7]}, {"note": "mine"}])]
        return ["copy", cid, mech, nid]

    p_restart = 0.04

    def g_insert_before(self, cid, mc, fail):
        return self._rel("insert_before", cid, mc, fail)

    def g_insert_after(self, cid, mc, fail):
        return self._rel("insert_after", cid, mc, fail)


# ---- shrinking helpers -----------------------------------------------------

def simplify_spec(spec):
    """Yield simpler value specs."""
    if isinstance(spec, dict) and "new" in spec:
        yield 0
        if spec["pairs"]:
            yield {"new": spec["new"], "id": spec["id"], "pairs": []}
            for i in range(len(spec["pairs"])):
                yield {"new": spec["new"], "id": spec["id"],
                       "pairs": spec["pairs"][:i] + spec["pairs"][i + 1:]}
    elif isinstance(spec, dict):
        yield 0


def op_reductions(op):
    """Yield simpler variants of one operation."""
    for i, a in enumerate(op):
        if i < 2:
            continue
        if isinstance(a, dict):
            for s in simplify_spec(a):
                yield op[:i] + [s] + op[i + 1:]
        elif isinstance(a, list) and a and isinstance(a[0], list):
            for j in range(len(a)):
                yield op[:i] + [a[:j] + a[j + 1:]] + op[i + 1:]
            for j, (k, s) in enumerate(a):
                for s2 in simplify_spec(s):
                    yield op[:i] + [a[:j] + [[k, s2]] + a[j + 1:]] + \
                        op[i + 1:]


def history_reductions(ops):
    n = len(ops)
    # drop the tail after... (caller keeps only failing prefix already)
    size = n // 2
    while size >= 1:
        for start in range(0, n - size + 1, size):
            yield ops[:start] + ops[start + size:]
        size //= 2
    for i, op in enumerate(ops):
        for o2 in op_reductions(op):
            yield ops[:i] + [o2] + ops[i + 1:]
