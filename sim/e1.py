"""Engine E1 helpers: fault plans on token lists and on the token channel,
cases, execution against pvl with the recogniser as oracle."""
from . import core, gen, refparse, chan, dialects
from .gen import (Tok, NAME, NUM, STR, DATE, KWVAL, BEGIN_G, BEGIN_O, END_G,
                  END_O, END, EQ, COMMA, LP, RP, LB, RB, SEMI, UNITS, PARTIAL,
                  BADUNITS, ODDSPACE)

REPLACEMENTS = [
    (NAME, "Zq9", ("str", "Zq9")), (NUM, "5", ("int", 5)),
    (STR, '"s t"', ("str", "s t")), (EQ, "=", None), (COMMA, ",", None),
    (LP, "(", None), (RP, ")", None), (LB, "{", None), (RB, "}", None),
    (SEMI, ";", None), (END, "END", None), (BEGIN_G, "GROUP", None),
    (BEGIN_O, "OBJECT", None), (END_G, "END_GROUP", None),
    (END_O, "END_OBJECT", None), (UNITS, "<u>", None),
    (KWVAL, "NULL", ("none",)), (DATE, "2001-01-01", ("date", "2001-01-01")),
    (BADUNITS, "<m<s>", None), (BADUNITS, "<km x = 3 <m>", None),
    (ODDSPACE, "\x1c", None), (ODDSPACE, "\x1f\x1e", None),
]
OPPOSITE = {END_G: (END_O, "END_OBJECT"), END_O: (END_G, "END_GROUP"),
            BEGIN_G: (BEGIN_O, "OBJECT"), BEGIN_O: (BEGIN_G, "GROUP"),
            LP: (LB, "{"), LB: (LP, "("), RP: (RB, "}"), RB: (RP, ")")}


def tok_json(t):
    return [t.kind, t.text, t.role, t.depth, t.stmt,
            core.listify(t.val) if t.val is not None else None]


def tok_from(j):
    return Tok(j[0], j[1], j[2], j[3], j[4],
               core.tuplify(j[5]) if j[5] is not None else None)


def value_of(tok):
    if tok.val is not None:
        return tok.val
    return ("str", tok.text)    # e.g. BEGIN_GROUP read as a name under ISIS


# ---- fault plans -----------------------------------------------------------

def hot_positions(toks):
    """Indices of places that create in-flight state: block begin/end
    statements, the token after '=', last token of a block, commas and
    closers of collections."""
    hot = []
    for i, t in enumerate(toks):
        if t.role in ("begin", "begin-eq", "block-name", "end-kw", "end-eq",
                      "end-name", "comma", "closer", "open", "END"):
            hot.append(i)
        elif i and toks[i - 1].kind == EQ:
            hot.append(i)
        elif i + 1 < len(toks) and toks[i + 1].role == "end-kw":
            hot.append(i)
    return hot


def random_plan(rng, toks, nfaults, kinds):
    """A plan of 1..nfaults faults at distinct, non-adjacent-for-swap
    indices.  Each fault: {"kind", "at", ...}."""
    n = len(toks)
    if n == 0:
        return []
    hot = hot_positions(toks)
    used = set()
    plan = []
    for _ in range(nfaults):
        at = rng.choice(hot) if hot and rng.random() < 0.6 else \
            rng.randrange(n)
        if at in used or (at + 1) in used or (at - 1) in used:
            continue
        kind = rng.choice(kinds)
        f = {"kind": kind, "at": at}
        if kind == "swap":
            if at + 1 >= n:
                continue
            used.add(at + 1)
        if kind == "replace":
            t = toks[at]
            x = rng.random()
            if t.kind == NUM and at + 1 < len(toks) and \
                    toks[at + 1].kind == UNITS and x < 0.6:
                # the value a units expression belongs to turns into
                # something that is not a number
                k2, text, val = rng.choice([
                    (KWVAL, "TRUE", ("bool", True)),
                    (KWVAL, "false", ("bool", False)),
                    (KWVAL, "NULL", ("none",)), (STR, '"s"', ("str", "s")),
                    (NAME, "Zq9", ("str", "Zq9")),
                    (DATE, "2001-01-01", ("date", "2001-01-01"))])
                f.update(tkind=k2, text=text, val=core.listify(val))
            elif t.kind == UNITS and x < 0.5:
                f.update(tkind=BADUNITS, text=t.text[:-1] + " <s>",
                         val=None)
            elif t.kind in OPPOSITE and x < 0.5:
                k2, text = OPPOSITE[t.kind]
                f.update(tkind=k2, text=text, val=None)
            elif t.role in ("block-name", "end-name") and x < 0.3 and \
                    t.text.swapcase() != t.text:
                # names are case-sensitive: the same name in another case
                # is another name
                f.update(tkind=NAME, text=t.text.swapcase(),
                         val=["str", t.text.swapcase()])
            elif t.role in ("block-name", "end-name") and x < 0.6:
                f.update(tkind=NAME, text=t.text + "x",
                         val=["str", t.text + "x"])
            elif t.kind == UNITS and x < 0.75:
                # a units delimiter too many
                f.update(tkind=BADUNITS, text=rng.choice(
                    ["<" + t.text, t.text + ">", "<" + t.text + ">"]),
                    val=None)
            else:
                k2, text, val = rng.choice(
                    [r for r in REPLACEMENTS if r[0] != t.kind])
                f.update(tkind=k2, text=text, val=core.listify(val))
        used.add(at)
        plan.append(f)
    plan.sort(key=lambda f: f["at"])
    return plan


def apply_plan(toks, plan):
    """The token list that results from the plan (mirrors chan.SimLexer):
    returns (damaged list, number of faults that can fire)."""
    by_at = {f["at"]: f for f in plan}
    out = []
    i = 0
    n = len(toks)
    while i < n:
        t = toks[i]
        f = by_at.get(i)
        if f is None:
            out.append(t)
        elif f["kind"] == "eof":
            break
        elif f["kind"] == "drop":
            pass
        elif f["kind"] == "dup":
            out.extend([t, t])
        elif f["kind"] == "replace":
            out.append(Tok(f["tkind"], f["text"], t.role, t.depth, t.stmt,
                           core.tuplify(f["val"]) if f.get("val") else None))
        elif f["kind"] == "swap":
            if i + 1 < n:
                out.extend([toks[i + 1], t])
                i += 1
            else:
                out.append(t)
        elif f["kind"] == "partial":
            out.append(Tok(PARTIAL, f["text"], t.role, t.depth, t.stmt))
            break
        else:
            raise ValueError(f)
        i += 1
    return out


def partial_text(rng, t):
    """An unterminated version of a delimited token, or None."""
    if t.kind == STR and len(t.text) >= 2:
        return t.text[:max(1, rng.randrange(1, len(t.text)))]
    if t.kind == UNITS:
        return t.text[:max(1, rng.randrange(1, len(t.text)))]
    if t.kind == NUM and "#" in t.text:
        return t.text[:t.text.index("#") + 1 + rng.randrange(
            0, len(t.text) - t.text.index("#") - 1)]
    return None


def end_index(toks):
    for i, t in enumerate(toks):
        if t.kind == END:
            return i
    return None


def strip_lineno(c):
    """("empty", n) -> ("empty",) everywhere in a canonical form."""
    if isinstance(c, tuple):
        if len(c) == 2 and c[0] == "empty":
            return ("empty",)
        return tuple(strip_lineno(x) for x in c)
    return c


def simple_text(toks):
    """Plain rendering used for shrunk cases: one statement per line where
    the roles allow it, single spaces otherwise."""
    return " ".join(t.text for t in toks)
