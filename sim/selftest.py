"""Proving the simulator before believing it (DESIGN 2.7).

  run.py selftest determinism [IDs...] [--runs N]
      every property is run four times on N seeds: twice identically, once
      with another worker count, once under other PYTHONHASHSEED values (all
      in fresh interpreters).  digest_full must be identical within a hash
      seed, digest_core (and therefore the verdict) across hash seeds.

  run.py selftest sensitivity [patch names...]
      every patch of /verif/mutants (index.json says which checks must
      notice it) is applied to a scratch git worktree of /repo outside /repo
      and /verif, the quick check is pointed at it with VERIF_REPO and must
      exit 1 with a VIOLATION line; the unmodified worktree must exit 0.
"""
import json
import os
import shutil
import subprocess
import sys
import tempfile
import time

HERE = os.path.dirname(os.path.abspath(__file__))
VERIF = os.path.dirname(HERE)
RUN = os.path.join(HERE, "run.py")
PY = sys.executable

ALL = ["C05", "C06", "C08", "C09", "C10", "C11", "C13", "C15", "C16", "C20"]
DET_RUNS = {"C05": 64, "C06": 64, "C08": 48, "C09": 96, "C10": 800,
            "C11": 800, "C13": 400, "C15": 96, "C16": 200, "C20": 64}
SENS_RUNS = {"C05": 600, "C06": 600, "C08": 300, "C09": 600, "C10": 6000,
             "C11": 6000, "C13": 4000, "C15": 600, "C16": 1200, "C20": 300}


def digests(pid, runs, extra_env, scratch, tag):
    out = os.path.join(scratch, "%s-%s.json" % (pid, tag))
    env = dict(os.environ)
    env.update(extra_env)
    env["VERIF_KEEP_DIGESTS"] = out
    env["VERIF_NO_EVIDENCE"] = "1"
    env["VERIF_REPLAY_DIR"] = os.path.join(scratch, "replays")
    p = subprocess.run([PY, "-B", RUN, "check", pid, "--tier", "quick",
                        "--runs", str(runs), "--no-shrink"], env=env,
                       stdout=subprocess.PIPE, stderr=subprocess.STDOUT,
                       text=True)
    if p.returncode not in (0, 1) or not os.path.exists(out):
        print(p.stdout[-2000:])
        raise RuntimeError("%s %s: harness error rc=%s" %
                           (pid, tag, p.returncode))
    with open(out) as f:
        return json.load(f), p.returncode


def determinism(a):
    props = a.props or ALL
    scratch = tempfile.mkdtemp(prefix="verif-selftest-")
    bad = 0
    try:
        for pid in props:
            runs = a.runs or DET_RUNS[pid]
            t0 = time.time()
            A, ra = digests(pid, runs, {}, scratch, "a")
            B, rb = digests(pid, runs, {}, scratch, "b")
            C, rc = digests(pid, runs, {"VERIF_PROCS": "8"}, scratch, "c")
            D, rd = digests(pid, runs, {"VERIF_HASH_SHIFT": "1"}, scratch,
                            "d")
            ok_full = (A == B == C)
            ok_core = [x[:2] for x in A] == [x[:2] for x in D]
            ok_rc = ra == rb == rc == rd
            n_full_hash = sum(1 for x, y in zip(A, D) if x[2] != y[2])
            print("determinism %s: %d seeds x 4 executions: same-hash-seed "
                  "digest_full %s, other worker count %s, other hash seeds "
                  "digest_core %s (digest_full differs on %d seeds, as "
                  "allowed), verdicts %s  [%.0fs]" % (
                      pid, len(A), "IDENTICAL" if A == B else "DIFFER",
                      "IDENTICAL" if A == C else "DIFFER",
                      "IDENTICAL" if ok_core else "DIFFER", n_full_hash,
                      "equal" if ok_rc else "DIFFER", time.time() - t0),
                  flush=True)
            if not (ok_full and ok_core and ok_rc):
                bad += 1
                for x, y in zip(A, B):
                    if x != y:
                        print("   first divergence (same config) at run",
                              x[0])
                        break
                for x, y in zip(A, D):
                    if x[:2] != y[:2]:
                        print("   first core divergence (hash seed) at run",
                              x[0])
                        break
    finally:
        shutil.rmtree(scratch, ignore_errors=True)
    print("selftest determinism: %s" % ("FAILED" if bad else "ok"))
    return 1 if bad else 0


def sensitivity(a):
    idx_path = os.path.join(VERIF, "mutants", "index.json")
    with open(idx_path) as f:
        index = json.load(f)
    names = a.props or sorted(index)
    scratch = tempfile.mkdtemp(prefix="verif-sens-")
    failures = 0
    rows = []
    try:
        wt = os.path.join(scratch, "repo")
        subprocess.run(["git", "-C", "/repo", "worktree", "add", "-q",
                        "--detach", wt, "HEAD"], check=True)
        try:
            for name in names:
                ent = index[name]
                patch = os.path.join(VERIF, ent.get("path", os.path.join(
                    "mutants", name)))
                subprocess.run(["git", "-C", wt, "checkout", "-q", "--", "."],
                               check=True)
                r = subprocess.run(["git", "-C", wt, "apply", patch])
                if r.returncode != 0:
                    print("sensitivity %s: PATCH DOES NOT APPLY" % name)
                    failures += 1
                    continue
                for pid in ent["expect"]:
                    env = dict(os.environ)
                    env.update({"VERIF_REPO": wt, "VERIF_NO_EVIDENCE": "1",
                                "VERIF_REPLAY_DIR": os.path.join(
                                    scratch, "replays")})
                    t0 = time.time()
                    p = subprocess.run(
                        [PY, "-B", RUN, "check", pid, "--tier", "quick",
                         "--runs", str(a.runs or SENS_RUNS[pid]),
                         "--no-shrink"], env=env, stdout=subprocess.PIPE,
                        stderr=subprocess.STDOUT, text=True)
                    caught = p.returncode == 1 and "VIOLATION property=%s" \
                        % pid in p.stdout
                    rows.append((name, pid, caught, time.time() - t0))
                    print("sensitivity %-40s %s: %s  [%.0fs]" % (
                        name, pid, "caught" if caught else
                        "MISSED (rc=%s)" % p.returncode, time.time() - t0),
                        flush=True)
                    if not caught:
                        failures += 1
            # and the unmodified tree must be quiet
            subprocess.run(["git", "-C", wt, "checkout", "-q", "--", "."],
                           check=True)
        finally:
            subprocess.run(["git", "-C", "/repo", "worktree", "remove",
                            "--force", wt])
    finally:
        shutil.rmtree(scratch, ignore_errors=True)
    print("selftest sensitivity: %d/%d caught" % (
        sum(1 for r in rows if r[2]), len(rows)))
    if not a.props:
        with open(os.path.join(VERIF, "mutants", "results.json"), "w") as f:
            json.dump([{"patch": r[0], "check": r[1], "caught": r[2],
                        "wall_s": round(r[3])} for r in rows], f, indent=1)
    return 1 if failures else 0


def main(a):
    if a.what == "determinism":
        return determinism(a)
    return sensitivity(a)
