"""List-of-pairs reference model and the history machine that steps the real
pvl containers and the model side by side (engine E3: C10, C11, C13).

The model never calls pvl.  A model container is a class name plus a Python
list of (key, value) pairs; values are immutable scalars or references to
other model containers, so shallow copies share nested model objects exactly
as Python's semantics say they should and deep copies do not.
"""
import copy as _copy
import datetime as _dt
import pickle as _pickle

from . import core
from pvl.collections import (OrderedMultiDict, PVLModule, PVLGroup,
                             PVLObject, Quantity)

class MyModule(PVLModule):
    """A user's subclass, as the parsers' module_class= option allows."""


class MyGroup(PVLGroup):
    pass


class MyObject(PVLObject):
    pass


CLASSES = {"OrderedMultiDict": OrderedMultiDict, "PVLModule": PVLModule,
           "PVLGroup": PVLGroup, "PVLObject": PVLObject,
           "MyModule": MyModule, "MyGroup": MyGroup, "MyObject": MyObject}

KEYS = ["a", "b", "c", "d", "^e"]
OP_STEP_BUDGET = 200000     # line events inside pvl per container operation
SENT = object()


class UserQty(int):
    """A caller's own quantity class (an int with units): encoders write it
    as a plain integer unless add_quantity_cls() registered the class."""

    def __new__(cls, value, units=""):
        self = super().__new__(cls, value)
        self.units = units
        return self

    @property
    def value(self):
        return int(self)

    def __reduce__(self):
        return (UserQty, (int(self), self.units))


class MC:
    """Model container."""
    __slots__ = ("id", "cls", "items")

    def __init__(self, id_, cls, items):
        self.id = id_
        self.cls = cls
        self.items = items      # list[(key, value)]

    def keys(self):
        return [k for k, _ in self.items]

    def positions(self, key):
        return [i for i, (k, _) in enumerate(self.items) if k == key]

    def values_of(self, key):
        return [v for k, v in self.items if k == key]

    def __repr__(self):
        return "MC#%s<%s>%r" % (self.id, self.cls, self.items)


class EmptyModel:
    """Model of an empty-value placeholder: '' carrying a line number."""
    __slots__ = ("lineno",)

    def __init__(self, lineno):
        self.lineno = lineno

    def __eq__(self, other):
        return isinstance(other, EmptyModel) and other.lineno == self.lineno

    def __hash__(self):
        return hash(("EmptyModel", self.lineno))

    def __repr__(self):
        return "Empty@%d" % self.lineno


class TupModel(tuple):
    """Model of a plain tuple value (a list's model is a plain tuple)."""


class PairRet(tuple):
    """A (key, value) pair returned by pop()/popitem() in the model."""


class Problem(Exception):
    def __init__(self, cls, detail):
        super().__init__(cls, detail)
        self.cls = cls
        self.detail = detail


# ---- what the model says an operation does --------------------------------
# returns ("ret", value) or ("raise", (ExcTypes,)) or ("raise-resync",)

def m_append(m, k, v):
    m.items.append((k, v))
    return ("ret", None)


def m_setitem(m, k, v):
    pos = m.positions(k)
    if not pos:
        m.items.append((k, v))
    else:
        first = pos[0]
        m.items[:] = ([it for it in m.items[:first]] + [(k, v)] +
                      [it for it in m.items[first + 1:] if it[0] != k])
    return ("ret", None)


def m_delitem(m, k):
    if not m.positions(k):
        return ("raise", (KeyError,))
    m.items[:] = [it for it in m.items if it[0] != k]
    return ("ret", None)


def m_poplast(m):
    if not m.items:
        return ("raise", (KeyError, IndexError))
    return ("ret", PairRet(m.items.pop()))


def m_popkey(m, k, *default):
    vals = m.values_of(k)
    if not vals:
        if default:
            return ("ret", default[0])
        return ("raise", (KeyError,))
    m.items[:] = [it for it in m.items if it[0] != k]
    return ("ret", vals[0])


def m_setdefault(m, k, d):
    vals = m.values_of(k)
    if vals:
        return ("ret", vals[0])
    m.items.append((k, d))
    return ("ret", d)


def m_discard(m, k):
    m.items[:] = [it for it in m.items if it[0] != k]
    return ("ret", None)


def m_clear(m):
    m.items[:] = []
    return ("ret", None)


def m_insert(m, index, pairs):
    m.items[index:index] = list(pairs)
    return ("ret", None)


def m_key_index(m, k, inst):
    pos = m.positions(k)
    if not pos:
        return ("raise", (KeyError,))
    try:
        return ("ret", pos[inst])
    except IndexError:
        return ("raise", (IndexError,))


# ---- the machine ----------------------------------------------------------

class Machine:
    """Executes a list of JSON-able operations on real containers and on
    the model, checking every observable after every operation."""

    def __init__(self, check_level=2, check_period=1):
        # check_period n: the full accessor comparison runs after every n-th
        # operation only (and at the end); in between only iteration and
        # len are compared.  Calling every accessor after every step would
        # keep refreshing any state an accessor caches, and hide it.
        self.check_period = max(1, check_period)
        self.reg = {}        # id -> (real, MC)
        self.by_real = {}    # id(real) -> id
        self.problems = []   # list[(cls, detail, op_index)]
        self.opi = -1
        self.check_level = check_level
        self.counts = {}
        self.keep = []       # keep real objects alive (id() stability)
        self.kept = {}       # id -> (real, keys(), values(), items()) views

    def uq_class(self):
        """The user's quantity class of this run: a class of its own, so
        that whatever an earlier run in this process registered with some
        encoder cannot be mistaken for it."""
        if getattr(self, "_uq_cls", None) is None:
            self._uq_cls = type("UserQty", (UserQty,), {})
        return self._uq_cls

    # -- construction of values from specs
    def register(self, id_, real, mc):
        self.reg[id_] = (real, mc)
        self.by_real[id(real)] = id_
        self.keep.append(real)
        try:
            self.kept[id_] = (real, real.keys(), real.values(), real.items())
        except Exception:
            self.kept.pop(id_, None)

    def build(self, spec):
        """-> (real_value, model_value)"""
        if isinstance(spec, bool):
            return spec, spec
        if isinstance(spec, int):
            return spec, spec
        if isinstance(spec, dict):
            if "new" in spec:
                pairs = [(k, self.build(s)) for k, s in spec["pairs"]]
                real = CLASSES[spec["new"]]([(k, r) for k, (r, _) in pairs])
                mc = MC(spec["id"], spec["new"],
                        [(k, m) for k, (_, m) in pairs])
                self.register(spec["id"], real, mc)
                return real, mc
            if "ref" in spec:
                if spec["ref"] not in self.reg:
                    raise KeyError("dangling ref")
                return self.reg[spec["ref"]]
            if "s" in spec:
                return spec["s"], spec["s"]
            if "f" in spec:
                return float(spec["f"]), float(spec["f"])
            if "none" in spec:
                return None, None
            if "list" in spec:
                b = [self.build(s) for s in spec["list"]]
                return [r for r, _ in b], tuple(m for _, m in b)
            if "tup" in spec:
                # a plain tuple (a caller's row of numbers): no encoder
                # writes it, and none may turn it into something else
                b = [self.build(s) for s in spec["tup"]]
                return (tuple(r for r, _ in b),
                        TupModel(m for _, m in b))
            if "set" in spec:
                b = [self.build(s) for s in spec["set"]]
                return (frozenset(r for r, _ in b),
                        frozenset(m for _, m in b))
            if "mset" in spec:
                b = [self.build(s) for s in spec["mset"]]
                return (set(r for r, _ in b), frozenset(m for _, m in b))
            if "dt" in spec:
                kind, iso = spec["dt"]
                if kind == "date":
                    v = _dt.date.fromisoformat(iso)
                elif kind == "time":
                    v = _dt.time.fromisoformat(iso)
                else:
                    v = _dt.datetime.fromisoformat(iso)
                return v, v
            if "q" in spec:
                r, m = self.build(spec["q"][0])
                return Quantity(r, spec["q"][1]), ("Q", m, spec["q"][1])
            if "uq" in spec:
                return (self.uq_class()(spec["uq"][0], spec["uq"][1]),
                        ("UQ", spec["uq"][0], spec["uq"][1]))
            if "empty" in spec:
                from pvl.parser import EmptyValueAtLine
                return (EmptyValueAtLine(spec["empty"]),
                        EmptyModel(spec["empty"]))
        raise ValueError("bad value spec %r" % (spec,))

    # -- comparing a real value with a model value
    def same(self, rv, mv):
        if isinstance(mv, MC):
            ent = self.reg.get(mv.id)
            return ent is not None and ent[0] is rv
        if isinstance(mv, TupModel):
            return (type(rv) is tuple and len(rv) == len(mv) and
                    all(self.same(a, b) for a, b in zip(rv, mv)))
        if type(rv) is tuple:
            return False
        if isinstance(rv, OrderedMultiDict):
            return False
        if isinstance(mv, EmptyModel):
            return (type(rv).__name__ == "EmptyValueAtLine" and rv == ""
                    and getattr(rv, "lineno", None) == mv.lineno)
        if type(rv).__name__ == "EmptyValueAtLine":
            return False
        if isinstance(mv, tuple) and len(mv) == 3 and mv[0] == "UQ":
            return (isinstance(rv, UserQty) and int(rv) == mv[1]
                    and rv.units == mv[2])
        if isinstance(rv, UserQty):
            return False
        if isinstance(mv, tuple) and len(mv) == 3 and mv[0] == "Q":
            return (type(rv) is Quantity and self.same(rv.value, mv[1])
                    and rv.units == mv[2])
        if isinstance(mv, tuple):
            return (type(rv) is list and len(rv) == len(mv) and
                    all(self.same(a, b) for a, b in zip(rv, mv)))
        if isinstance(mv, frozenset):
            return isinstance(rv, (set, frozenset)) and rv == mv
        return type(rv) is type(mv) and rv == mv

    def same_ret(self, rv, mv):
        if isinstance(mv, PairRet):
            return (isinstance(rv, tuple) and len(rv) == 2 and
                    rv[0] == mv[0] and self.same(rv[1], mv[1]))
        if mv is SENT:
            return rv is SENT
        return self.same(rv, mv)

    def fail(self, cls, detail):
        self.problems.append((cls, detail, self.opi))

    # -- model value for a real value (used when resyncing)
    def model_of(self, rv):
        if isinstance(rv, OrderedMultiDict):
            i = self.by_real.get(id(rv))
            if i is None or self.reg[i][0] is not rv:
                raise Problem("foreign-object",
                              "container holds an object the history never "
                              "put there: %s" % (core.short(rv),))
            return self.reg[i][1]
        if isinstance(rv, list):
            return tuple(self.model_of(x) for x in rv)
        if type(rv) is tuple:
            return TupModel(self.model_of(x) for x in rv)
        if isinstance(rv, (set, frozenset)):
            return frozenset(rv)
        if isinstance(rv, UserQty):
            return ("UQ", int(rv), rv.units)
        if type(rv) is Quantity:
            return ("Q", self.model_of(rv.value), rv.units)
        if type(rv).__name__ == "EmptyValueAtLine":
            return EmptyModel(rv.lineno)
        return rv

    # -- all observables of one container against its model
    def check_container(self, cid):
        real, mc = self.reg[cid]
        exp = mc.items
        n = len(exp)
        tag = "#%s" % (cid,)
        try:
            got = list(real)
        except Exception as e:
            return self.fail("view-disagreement",
                             "%s iteration raised %r" % (tag, e))
        ok = len(got) == n and all(
            isinstance(g, tuple) and len(g) == 2 and g[0] == e[0]
            and self.same(g[1], e[1]) for g, e in zip(got, exp))
        if not ok:
            return self.fail(
                "list-mismatch", "%s iteration shows %s, model list is %r"
                % (tag, core.short(got), exp))
        if len(real) != n:
            return self.fail("view-disagreement",
                             "%s len()=%d, list has %d" % (tag, len(real), n))
        if mc.cls in CLASSES and type(real) is not CLASSES[mc.cls]:
            return self.fail("class-changed", "%s is a %s now, it was "
                             "created as %s" % (tag, type(real).__name__,
                                                mc.cls))
        if self.check_level < 1:
            return None
        try:
            self._check_views(real, mc, exp, n, tag)
        except Problem as p:
            self.fail(p.cls, p.detail)
        except Exception as e:
            self.fail("view-disagreement", "%s accessor raised %s: %s (list "
                      "is %r)" % (tag, type(e).__name__, e, exp))
        return None

    def _eqpairs(self, got, exp):
        return len(got) == len(exp) and all(
            g[0] == e[0] and self.same(g[1], e[1]) for g, e in zip(got, exp))

    def _check_views(self, real, mc, exp, n, tag):
        def bad(what, got=None):
            raise Problem("view-disagreement",
                          "%s %s -> %s; list is %r" % (tag, what,
                                                      core.short(got), exp))
        # integer and slice indexing of the container
        for i in range(-n, n):
            g = real[i]
            if not (g[0] == exp[i][0] and self.same(g[1], exp[i][1])):
                bad("m[%d]" % i, g)
        for bad_i in (n, -n - 1):
            try:
                real[bad_i]
                bad("m[%d] did not raise" % bad_i)
            except IndexError:
                pass
        for sl in (slice(None), slice(1, None), slice(None, -1),
                   slice(None, None, 2), slice(n // 2, n)):
            if not self._eqpairs(real[sl], exp[sl]):
                bad("m[%r]" % (sl,), real[sl])
        # the three views: obtained now, and the ones obtained when the
        # container was created and kept since (views are live objects)
        def views(kv, vv, iv, w):
            if list(kv) != [k for k, _ in exp]:
                bad(w + "keys()", list(kv))
            lv = list(vv)
            if not (len(lv) == n and all(self.same(a, b[1])
                                         for a, b in zip(lv, exp))):
                bad(w + "values()", lv)
            if not self._eqpairs(list(iv), exp):
                bad(w + "items()", list(iv))
            if not (len(kv) == len(vv) == len(iv) == n):
                bad(w + "len(views)", (len(kv), len(vv), len(iv)))
            for i in range(-n, n):
                if kv[i] != exp[i][0]:
                    bad(w + "keys()[%d]" % i, kv[i])
                if not self.same(vv[i], exp[i][1]):
                    bad(w + "values()[%d]" % i, vv[i])
                g = iv[i]
                if not (g[0] == exp[i][0] and self.same(g[1], exp[i][1])):
                    bad(w + "items()[%d]" % i, g)
            seen = set()
            for i, (k, v) in enumerate(exp):
                if k not in seen:
                    seen.add(k)
                    if kv.index(k) != i:
                        bad(w + "keys().index(%r)" % k, kv.index(k))
                if k not in kv:
                    bad(w + "%r in keys()" % k, False)
                if not isinstance(v, MC):
                    rv = lv[i]      # the real value at that place
                    if rv not in vv:
                        bad(w + "%r in values()" % (v,), False)
                    if (k, rv) not in iv:
                        bad(w + "(%r, %r) in items()" % (k, v), False)
        views(real.keys(), real.values(), real.items(), "")
        kept = self.kept.get(mc.id)
        if kept is not None and kept[0] is real:
            views(kept[1], kept[2], kept[3], "kept since creation: ")
        # mapping side
        present = set(k for k, _ in exp)
        for k in KEYS + ["zz"]:
            vals = [v for kk, v in exp if kk == k]
            pos = [i for i, (kk, _) in enumerate(exp) if kk == k]
            if (k in real) != bool(vals):
                bad("%r in m" % k, k in real)
            if vals:
                if not self.same(real[k], vals[0]):
                    bad("m[%r]" % k, real[k])
                if not self.same(real.get(k, SENT), vals[0]):
                    bad("m.get(%r)" % k, real.get(k, SENT))
                ga = real.getall(k)
                if not (len(ga) == len(vals) and all(
                        self.same(a, b) for a, b in zip(ga, vals))):
                    bad("m.getall(%r)" % k, ga)
                # what getall() hands out is the caller's to keep and to
                # change: doing so must not reach the container
                if isinstance(ga, list):
                    ga.append(SENT)
                    ga.reverse()
                    g2 = real.getall(k)
                    if not (len(g2) == len(vals) and all(
                            self.same(a, b) for a, b in zip(g2, vals))):
                        bad("m.getall(%r) after the caller changed the "
                            "list it got from an earlier getall()" % k, g2)
                    if not self.same(real[k], vals[0]):
                        bad("m[%r] after the caller changed a getall() "
                            "result" % k, real[k])
                for j in range(-len(pos), len(pos)):
                    if real.key_index(k, j) != pos[j]:
                        bad("m.key_index(%r,%d)" % (k, j),
                            real.key_index(k, j))
                if real.key_index(k) != pos[0]:
                    bad("m.key_index(%r)" % k, real.key_index(k))
                for j in (len(pos), -len(pos) - 1):
                    try:
                        real.key_index(k, j)
                        bad("m.key_index(%r,%d) did not raise" % (k, j))
                    except IndexError:
                        pass
                st = dict.__getitem__(real, k)
                if not (isinstance(st, list) and len(st) == len(vals) and
                        all(self.same(a, b) for a, b in zip(st, vals))):
                    bad("dict storage[%r]" % k, st)
            else:
                for what, fn in (("m[%r]", lambda: real[k]),
                                 ("m.getall(%r)", lambda: real.getall(k)),
                                 ("m.key_index(%r)",
                                  lambda: real.key_index(k))):
                    try:
                        fn()
                        bad((what % k) + " did not raise KeyError")
                    except KeyError:
                        pass
                if real.get(k, SENT) is not SENT:
                    bad("m.get(%r, d)" % k, real.get(k, SENT))
                if real.get(k) is not None:
                    bad("m.get(%r)" % k, real.get(k))
        if set(dict.keys(real)) != present or dict.__len__(real) != len(
                present):
            bad("dict storage keys", sorted(map(str, dict.keys(real))))
        if self.check_level < 2:
            return
        # equality: equal exactly when the lists are equal
        cls = type(real)
        pairs = [(g[0], g[1]) for g in real]
        twin = cls(pairs)
        if not (real == twin and twin == real) or (real != twin):
            bad("m == type(m)(list(m))", False)
        if n:
            for other in (cls(pairs[:-1]), cls(pairs[1:]),
                          cls(pairs + [pairs[0]]),
                          cls([("zz", pairs[0][1])] + pairs[1:]),
                          cls(pairs[:-1] + [(pairs[-1][0], SENT)])):
                if real == other or other == real or not (real != other):
                    bad("m == container with a different list", True)
            if n > 1 and pairs[0] != pairs[-1]:
                rev = cls([pairs[-1]] + pairs[1:-1] + [pairs[0]])
                if (real == rev) != (
                        pairs[0][0] == pairs[-1][0] and
                        pairs[0][1] == pairs[-1][1]):
                    bad("m == container with first/last swapped", real == rev)
        else:
            if real == cls([("zz", 0)]):
                bad("empty == non-empty", True)

    def check_all(self):
        for cid in list(self.reg):
            self.check_container(cid)
            if self.problems:
                return

    def resync(self, cid):
        """After a failed non-atomic operation: take the model list from the
        real container's own iteration (views must still agree)."""
        real, mc = self.reg[cid]
        try:
            mc.items[:] = [(k, self.model_of(v)) for k, v in list(real)]
        except Problem as p:
            self.fail(p.cls, p.detail)

    # -- operations ---------------------------------------------------------
    def mixed_arg(self, pairs_spec):
        """One positional argument (the first half of the pairs; may be
        empty) and keyword arguments (the rest, later duplicates win) in a
        single call: -> (positional, kwargs, model pairs)."""
        built = [(k, self.build(s)) for k, s in pairs_spec]
        h = len(built) // 2
        pos = [(k, r) for k, (r, _) in built[:h]]
        mp = [(k, m) for k, (_, m) in built[:h]]
        kw, mkw = {}, {}
        for k, (r, m) in built[h:]:
            kw[k] = r
            mkw[k] = m
        return pos, kw, mp + list(mkw.items())

    def pairs_arg(self, form, pairs_spec):
        """Build the real argument object and the model pair list for the
        ways pairs can be handed to extend/insert/update/constructors."""
        built = [(k, self.build(s)) for k, s in pairs_spec]
        rp = [(k, r) for k, (r, _) in built]
        mp = [(k, m) for k, (_, m) in built]
        if form == "pairs":
            return rp, mp
        if form == "tuplepairs":
            return tuple(rp), mp
        if form == "listpairs":
            return [list(p) for p in rp], mp
        if form == "mapping":          # plain dict: later duplicates win
            d, md = {}, {}
            for (k, r), (_, m) in zip(rp, mp):
                d[k] = r
                md[k] = m
            return d, list(md.items())
        if form == "omd":
            return OrderedMultiDict(rp), mp
        if form == "iterpairs":        # a one-shot iterator, not a sequence
            return iter(rp), mp
        if form == "itemsobj":         # anything with .items() (documented)
            class HasItems:
                def items(self_):
                    return list(rp)
            return HasItems(), mp
        raise ValueError(form)

    def apply(self, op):
        """Apply one operation to real and model; record problems."""
        self.opi += 1
        name, cid = op[0], op[1]
        self.counts[name] = self.counts.get(name, 0) + 1
        if name == "new":
            try:
                self.do_new(op)
            except KeyError:
                return "skipped"
            return "ok"
        if cid not in self.reg:
            return "skipped"
        real, mc = self.reg[cid]
        h = getattr(self, "op_" + name, None)
        if h is None:
            raise ValueError("unknown op %r" % (name,))
        try:
            call, expect = h(real, mc, *op[2:])
        except KeyError:
            return "skipped"        # dangling reference after shrinking
        before = list(mc.items) if expect[0] != "ret" else None
        core.METER.begin(OP_STEP_BUDGET)
        try:
            got = ("ret", call())
        except Exception as e:      # noqa: BLE001 - outcome is data here
            got = ("raise", e)
        except core.SimStall:
            core.METER.end()
            self.fail("stall", "%r did not finish within %d line events "
                      "(at %s)" % (op, OP_STEP_BUDGET, core.METER.where))
            return "stall"
        finally:
            core.METER.end()
        status = "ok"
        if expect[0] == "ret":
            if got[0] == "raise":
                self.fail("unexpected-exception",
                          "%s on %r raised %s: %s" %
                          (name, op, type(got[1]).__name__, got[1]))
            elif not self.same_ret(got[1], expect[1]):
                self.fail("wrong-return-value", "%r returned %s, model says "
                          "%r" % (op, core.short(got[1]), expect[1]))
        elif expect[0] == "raise":
            status = "failed-op"
            mc.items[:] = before
            if got[0] == "ret":
                self.fail("missing-exception", "%r returned %s, model says "
                          "it raises %s" % (op, core.short(got[1]), "/".join(
                              t.__name__ for t in expect[1])))
            elif not isinstance(got[1], expect[1]):
                self.fail("wrong-exception-type", "%r raised %s, model says "
                          "%s" % (op, type(got[1]).__name__, "/".join(
                              t.__name__ for t in expect[1])))
        else:   # raise-resync: must raise something, list may be part-way
            status = "failed-op"
            if got[0] == "ret":
                self.fail("missing-exception",
                          "%r with a malformed argument returned %s" %
                          (op, core.short(got[1])))
            self.resync(cid)
        if not self.problems:
            if (self.opi + 1) % self.check_period == 0:
                self.check_all()
            else:
                saved, self.check_level = self.check_level, 0
                try:
                    self.check_all()
                finally:
                    self.check_level = saved
        return status

    def do_new(self, op):
        # ["new", id, cls, form, pairs_spec]
        _, cid, cls, form, pairs_spec = op
        if form == "kwargs":
            built = [(k, self.build(s)) for k, s in pairs_spec]
            kw = {}
            mkw = {}
            for k, (r, m) in built:
                kw[k] = r
                mkw[k] = m
            real = CLASSES[cls](**kw)
            mp = list(mkw.items())
        elif form == "mixed":
            pos, kw, mp = self.mixed_arg(pairs_spec)
            real = CLASSES[cls](pos, **kw)
        elif form == "copyctor":
            src = pairs_spec
            if src not in self.reg:
                raise KeyError(src)
            sreal, smc = self.reg[src]
            real = CLASSES[cls](sreal)
            mp = list(smc.items)
        else:
            arg, mp = self.pairs_arg(form, pairs_spec)
            real = CLASSES[cls](arg)
        self.register(cid, real, MC(cid, cls, mp))
        self.check_all()

    def op_append(self, real, mc, k, vs):
        r, m = self.build(vs)
        return (lambda: real.append(k, r)), m_append(mc, k, m)

    def op_setitem(self, real, mc, k, vs):
        r, m = self.build(vs)

        def call():
            real[k] = r
        return call, m_setitem(mc, k, m)

    def op_delitem(self, real, mc, k):
        def call():
            del real[k]
        return call, m_delitem(mc, k)

    def op_pop(self, real, mc, *args):
        if not args:
            return (lambda: real.pop()), m_poplast(mc)
        if len(args) == 1:
            return (lambda: real.pop(args[0])), m_popkey(mc, args[0])
        return (lambda: real.pop(args[0], SENT)), m_popkey(mc, args[0], SENT)

    def op_popall(self, real, mc, *args):
        if len(args) == 1:
            return (lambda: real.popall(args[0])), m_popkey(mc, args[0])
        return (lambda: real.popall(args[0], SENT)), m_popkey(
            mc, args[0], SENT)

    def op_popitem(self, real, mc):
        return (lambda: real.popitem()), m_poplast(mc)

    def op_setdefault(self, real, mc, k, *vs):
        if vs:
            r, m = self.build(vs[0])
            return (lambda: real.setdefault(k, r)), m_setdefault(mc, k, m)
        return (lambda: real.setdefault(k)), m_setdefault(mc, k, None)

    def op_discard(self, real, mc, k):
        return (lambda: real.discard(k)), m_discard(mc, k)

    def op_clear(self, real, mc):
        return (lambda: real.clear()), m_clear(mc)

    def op_extend(self, real, mc, form, pairs_spec):
        if form == "kwargs":
            built = [(k, self.build(s)) for k, s in pairs_spec]
            kw = {k: r for k, (r, _) in built}
            mkw = {k: m for k, (_, m) in built}
            for k, m in mkw.items():
                mc.items.append((k, m))
            return (lambda: real.extend(**kw)), ("ret", None)
        if form == "mixed":
            pos, kw, mp = self.mixed_arg(pairs_spec)
            mc.items.extend(mp)
            return (lambda: real.extend(pos, **kw)), ("ret", None)
        if form == "malformed":
            arg = [("a", -1), ("b",)] if pairs_spec == 0 else 5
            return (lambda: real.extend(arg)), ("raise-resync",)
        if form == "twoargs":
            return (lambda: real.extend([], [])), ("raise", (TypeError,))
        arg, mp = self.pairs_arg(form, pairs_spec)
        mc.items.extend(mp)
        return (lambda: real.extend(arg)), ("ret", None)

    def op_update(self, real, mc, form, pairs_spec):
        if form == "kwargs":
            built = [(k, self.build(s)) for k, s in pairs_spec]
            kw = {k: r for k, (r, _) in built}
            mkw = {k: m for k, (_, m) in built}
            for k, m in mkw.items():
                m_setitem(mc, k, m)
            return (lambda: real.update(**kw)), ("ret", None)
        if form == "mixed":
            pos, kw, mp = self.mixed_arg(pairs_spec)
            for k, m in mp:
                m_setitem(mc, k, m)
            return (lambda: real.update(pos, **kw)), ("ret", None)
        arg, mp = self.pairs_arg(form, pairs_spec)
        for k, m in mp:
            m_setitem(mc, k, m)
        return (lambda: real.update(arg)), ("ret", None)

    def _insert_call(self, real, mc, fn, index_ok, form, pairs_spec):
        """Shared by insert / insert_before / insert_after.
        *fn(arg_tuple)* performs the real call; *index_ok* is the model's
        list index or an ("raise", ...) expectation."""
        if form == "malformed":
            arg = {0: [("a", 1, 2)], 1: [5], 2: [("a", 1, 2), ("b", 2)],
                   3: 7}[pairs_spec]
            exp = index_ok if isinstance(index_ok, tuple) else (
                "raise", (TypeError, ValueError))
            if isinstance(index_ok, tuple):
                exp = ("raise", index_ok[1] + (TypeError, ValueError))
            return (lambda: fn((arg,))), exp
        if form == "3arg":
            k, vs = pairs_spec[0]
            r, m = self.build(vs)
            args, mp = (k, r), [(k, m)]
        elif form == "pair":
            k, vs = pairs_spec[0]
            r, m = self.build(vs)
            args, mp = ((k, r),), [(k, m)]
        elif form == "listpair":
            k, vs = pairs_spec[0]
            r, m = self.build(vs)
            args, mp = ([k, r],), [(k, m)]
        else:
            arg, mp = self.pairs_arg(form, pairs_spec)
            args = (arg,)
        if isinstance(index_ok, tuple):
            return (lambda: fn(args)), index_ok
        return (lambda: fn(args)), m_insert(mc, index_ok, mp)

    def op_insert(self, real, mc, index, form, pairs_spec):
        if not isinstance(index, int):
            return self._insert_call(
                real, mc, lambda a: real.insert(index, *a),
                ("raise", (TypeError,)), form, pairs_spec)
        return self._insert_call(real, mc,
                                 lambda a: real.insert(index, *a),
                                 index, form, pairs_spec)

    def _insert_rel(self, real, mc, after, key, inst, form, pairs_spec):
        if form == "3arg":
            form = "pair"
        ki = m_key_index(mc, key, 0 if inst is None else inst)
        meth = real.insert_after if after else real.insert_before
        if inst is None:
            fn = (lambda a: meth(key, *a))
        else:
            fn = (lambda a: meth(key, *a, instance=inst))
        if ki[0] == "raise":
            return self._insert_call(real, mc, fn, ki, form, pairs_spec)
        return self._insert_call(real, mc, fn,
                                 ki[1] + (1 if after else 0), form,
                                 pairs_spec)

    def op_insert_before(self, real, mc, key, inst, form, pairs_spec):
        return self._insert_rel(real, mc, False, key, inst, form, pairs_spec)

    def op_insert_after(self, real, mc, key, inst, form, pairs_spec):
        return self._insert_rel(real, mc, True, key, inst, form, pairs_spec)

    # -- copies (C11) -------------------------------------------------------
    def model_deepcopy(self, mc, new_id):
        """Deep copy of a model container; sharing inside is preserved, ids
        of the nested copies are "<new_id>.<preorder number>"."""
        memo = {}
        counter = [0]

        def rec(node, top):
            if node.id in memo:
                return memo[node.id]
            if top:
                nid = new_id
            else:
                counter[0] += 1
                nid = "%s.%d" % (new_id, counter[0])
            out = MC(nid, node.cls, [])
            memo[node.id] = out
            for k, v in node.items:
                out.items.append((k, rec(v, False) if isinstance(v, MC)
                                  else v))
            return out
        return rec(mc, True)

    def register_deep(self, real, mc, seen):
        """Register the real objects of a deep copy by walking real and model
        in parallel."""
        if mc.id in seen:
            if self.reg[mc.id][0] is not real:
                raise Problem("copy-sharing", "shared nested container was "
                              "not shared in the copy")
            return
        seen.add(mc.id)
        if not isinstance(real, OrderedMultiDict):
            raise Problem("copy-structure", "copy holds %s where a "
                          "container is expected" % (core.short(real),))
        self.register(mc.id, real, mc)
        ritems = list(real)
        if len(ritems) != len(mc.items):
            raise Problem("copy-structure", "copy has %d items, original "
                          "has %d: %s" % (len(ritems), len(mc.items),
                                          core.short(ritems)))
        for (rk, rv), (mk, mv) in zip(ritems, mc.items):
            if isinstance(mv, MC):
                self.register_deep(rv, mv, seen)

    def op_copy(self, real, mc, mech, new_id, attrs=None):
        """["copy", src, mech, new_id, {instance attributes set first}]"""
        for k, v in (attrs or {}).items():
            # what a loader does (module.errors) or a caller may do
            setattr(real, k, list(v) if isinstance(v, list) else v)
        before = core.canon(real)
        try:
            if mech == "method":
                c = real.copy()
            elif mech == "copy.copy":
                c = _copy.copy(real)
            elif mech == "deepcopy":
                c = _copy.deepcopy(real)
            elif mech.startswith("pickle"):
                c = _pickle.loads(_pickle.dumps(real, int(mech[6:])))
            elif mech.startswith("xpickle"):
                # through another interpreter with another hash seed
                rep = restart_roundtrip(_pickle.dumps(real, int(mech[7:])),
                                        int(mech[7:]))
                if "error" in rep:
                    raise RuntimeError("in the restarted interpreter: " +
                                       rep["error"])
                if core.tuplify(rep["canon"]) != core.tuplify(
                        core.listify(before)):
                    self.fail("restart-altered", "after a pickle round trip "
                              "into an interpreter with another hash seed "
                              "the container reads %r there, %r here" %
                              (rep["canon"], before))
                c = _pickle.loads(bytes.fromhex(rep["pickle"]))
            else:
                raise ValueError(mech)
        except Exception as e:  # noqa: BLE001
            self.fail("copy-raised", "%s of #%s raised %s: %s" %
                      (mech, mc.id, type(e).__name__, e))
            return (lambda: None), ("ret", None)
        if core.canon(real) != before:
            self.fail("original-changed", "%s changed the original: before "
                      "%r after %r" % (mech, before, core.canon(real)))
        if c is real:
            self.fail("copy-is-original", "%s returned the original object"
                      % mech)
        if type(c) is not type(real):
            self.fail("copy-class", "%s returned %s for a %s" %
                      (mech, type(c).__name__, type(real).__name__))
        shallow = mech in ("method", "copy.copy")
        if mech.startswith("xpickle"):
            self.counts["xpickle"] = self.counts.get("xpickle", 0) + 1
        try:
            if shallow:
                cm = MC(new_id, mc.cls, list(mc.items))
                if isinstance(c, OrderedMultiDict):
                    self.register(new_id, c, cm)
            else:
                cm = self.model_deepcopy(mc, new_id)
                self.register_deep(c, cm, set())
        except Problem as p:
            self.fail(p.cls, p.detail)
        except Exception as e:  # noqa: BLE001
            # the copy exists but cannot even be iterated
            self.fail("copy-unusable", "%s of #%s: reading the copy raised "
                      "%s: %s" % (mech, mc.id, type(e).__name__, e))
        if not self.problems and not shallow:
            shared = mutable_ids(real) & mutable_ids(c)
            if shared:
                self.fail("deep-copy-shares-mutable", "%s: the copy and the "
                          "original share %d mutable object(s) (a list, set "
                          "or container reachable from both)" %
                          (mech, len(shared)))
        if not self.problems:
            try:
                if not (c == real and real == c) or c != real:
                    self.fail("copy-not-equal", "%s: copy %s != original %s"
                              % (mech, core.short(c), core.short(real)))
                if core.canon(c) != before:
                    self.fail("copy-not-equal", "%s: copy has canonical "
                              "form %r, original %r" %
                              (mech, core.canon(c), before))
            except Exception as e:  # noqa: BLE001
                self.fail("copy-not-equal", "comparing the copy raised %r"
                          % (e,))
        return (lambda: None), ("ret", None)


def mutable_ids(v, acc=None, depth=0):
    """ids of every mutable object (container, list, set) reachable from v."""
    acc = acc if acc is not None else set()
    if depth > 30:
        return acc
    if isinstance(v, OrderedMultiDict):
        if id(v) in acc:
            return acc
        acc.add(id(v))
        try:
            items = list(v)
        except Exception:   # noqa: BLE001
            return acc
        for it in items:
            if isinstance(it, tuple) and len(it) == 2:
                mutable_ids(it[1], acc, depth + 1)
    elif isinstance(v, (list, set)):
        acc.add(id(v))
        for x in list(v):
            mutable_ids(x, acc, depth + 1)
    elif isinstance(v, (tuple, frozenset)):
        for x in v:
            mutable_ids(x, acc, depth + 1)
    return acc


_RESTART = None


def restart_roundtrip(data, proto):
    """Send a pickle to the restart server (sim/restartserver.py)."""
    global _RESTART
    import json
    import os
    import subprocess
    import sys
    if _RESTART is None or _RESTART.poll() is not None:
        env = dict(os.environ)
        mine = int(env.get("PYTHONHASHSEED", "0") or 0)
        env["PYTHONHASHSEED"] = str((mine + 7919) % 4294967295 or 1)
        _RESTART = subprocess.Popen(
            [sys.executable, "-B", os.path.join(core.VERIF, "sim",
                                                "restartserver.py")],
            stdin=subprocess.PIPE, stdout=subprocess.PIPE, text=True,
            env=env)
    _RESTART.stdin.write("%d %s\n" % (proto, data.hex()))
    _RESTART.stdin.flush()
    line = _RESTART.stdout.readline()
    if not line:
        raise RuntimeError("restart server died")
    return json.loads(line)


def run_ops(ops, check_level=2, machine_cls=Machine, check_period=1):
    """Execute an explicit operation list; returns the machine."""
    m = machine_cls(check_level, check_period)
    for op in ops:
        m.apply(op)
        if m.problems:
            break
    if not m.problems and check_period > 1:
        m.opi += 0
        m.check_all()           # full comparison at the end of the history
    return m
