"""Token-kind reference recogniser (DESIGN 3.2) - the oracle of C05/C08.

A recursive-descent recogniser over token *kinds*, written from the Blue
Book / ODL grammar as quoted in the property texts.  It never calls pvl and
never looks at characters: kinds are known by construction.

  module     := statement* [ END <anything> ]
  statement  := assignment | block
  assignment := NAME '=' value [';']
  value      := (simple | seq | set) [UNITS]     (ODL/PDS3: UNITS only
                                                  after a number)
  seq        := '(' [ value (',' value)* ] ')'      set := '{' ... '}'
  block      := BEGIN '=' NAME [';'] statement* ENDKW(kind must pair)
                ['=' NAME(must equal)] [';']

Tolerant configurations (ISIS, default) have exactly one extra rule: a value
may be absent when the next token is ';', a begin/end/END keyword, the end
of input, or a NAME immediately followed by '='.

Verdicts: ("ACCEPT", tree) | ("REJECT", why) | ("ABSTAIN", why).
Trees use the canonical format of core.canon; an absent value is
("empty", <index of its '=' token>) so that callers can turn it into a line.
"""
from .gen import (NAME, NUM, STR, DATE, KWVAL, BEGIN_G, BEGIN_O, END_G,
                  END_O, END, EQ, COMMA, LP, RP, LB, RB, SEMI, UNITS,
                  PARTIAL, BADUNITS, ODDSPACE)

STRICT = ("PVL", "ODL", "PDS3")
TOLERANT = ("ISIS", "default")
SIMPLE = (NAME, NUM, STR, DATE, KWVAL)
KEYWORD_KINDS = (BEGIN_G, BEGIN_O, END_G, END_O, END)


class Reject(Exception):
    pass


class Abstain(Exception):
    pass


class Recogniser:
    def __init__(self, toks, config, value_of):
        """*toks*: list of gen.Tok; *value_of(tok)* gives the canonical form
        of a simple-value token (the generator knows it)."""
        self.t = toks
        self.i = 0
        self.config = config
        self.tolerant = config in TOLERANT
        self.value_of = value_of
        self.n_empty = 0

    def kind(self, off=0):
        j = self.i + off
        if j >= len(self.t):
            return None
        t = self.t[j]
        if t.kind == ODDSPACE:
            # "\x1c": in the ODL character set but no identifier there ->
            # never a name or value; an ordinary unquoted string under the
            # default grammar; outside the PVL/ISIS character set (the
            # lexer rejects it, but a channel-level fault bypasses the
            # lexer) -> decide nothing there
            if self.config == "default":
                return NAME
            # elsewhere what such a token may be is dialect lore (C03/C17):
            # outside the PVL/ISIS character set, no identifier under ODL
            # and PDS3 yet taken as a parameter name there
            raise Abstain("odd-space token outside the default grammar")
        if self.config == "ISIS" and t.kind in (BEGIN_G, BEGIN_O) and \
                t.text.lower().startswith("begin_"):
            # ISIS has no BEGIN_GROUP / BEGIN_OBJECT keywords (ISISGrammar's
            # docstring): there the word is an ordinary name
            return NAME
        return t.kind

    def tok(self):
        return self.t[self.i]

    # -- grammar
    def module(self):
        items = self.statements(top=True)
        return ("PVLModule", tuple(items))

    def statements(self, top, begin_kind=None):
        items = []
        while True:
            k = self.kind()
            if k is None:
                if top:
                    return items
                raise Reject("block left open at end of text")
            if k in (PARTIAL, BADUNITS, ODDSPACE):
                raise Reject("unterminated or malformed delimited token")
            if k == END:
                if top:
                    return items
                raise Reject("END inside an open block")
            if k in (END_G, END_O):
                if top:
                    raise Reject("end-block keyword without a block")
                return items
            if k in (BEGIN_G, BEGIN_O):
                items.append(self.block())
            elif k == NAME:
                items.append(self.assignment())
            elif k == KWVAL or k == DATE:
                # NULL/TRUE/FALSE or a date where a name must stand: the
                # specifications and the library's token predicates are
                # not clearly aligned here - decide nothing.
                raise Abstain("keyword or date in a name position")
            else:
                raise Reject("stray %s between statements" % k)

    def assignment(self):
        name = self.tok().text
        self.i += 1
        if self.kind() != EQ:
            raise Reject("name not followed by '='")
        eq_index = self.i
        self.i += 1
        v = self.value(eq_index)
        if self.kind() == SEMI:
            self.i += 1
        return (name, v)

    def value_absent_ok(self):
        k = self.kind()
        if k is None or k == SEMI or k in KEYWORD_KINDS:
            return True
        if k == NAME and self.kind(1) == EQ:
            return True
        return False

    def value(self, eq_index=None, in_collection=False):
        k = self.kind()
        if self.tolerant and eq_index is not None and not in_collection \
                and self.value_absent_ok():
            self.n_empty += 1
            return ("empty", eq_index)
        if k in (PARTIAL, BADUNITS, ODDSPACE):
            raise Reject("unterminated or malformed delimited token")
        if k in SIMPLE:
            tok = self.tok()
            self.i += 1
            v = self.value_of(tok)
            numeric = k == NUM
        elif k == LP:
            v = ("list", tuple(self.collection(LP, RP)))
            numeric = False
        elif k == LB:
            elems = self.collection(LB, RB)
            # a Python set identifies 1, 1.0 and True (0, 0.0 and False) and
            # keeps the one that came first - that is the decoded type's
            # doing, not the loader's
            kept, seen = [], set()
            for e in elems:
                key = e
                if e[0] in ("int", "bool", "float"):
                    key = ("num", float(e[1]))
                if key not in seen:
                    seen.add(key)
                    kept.append(e)
            v = ("set", tuple(sorted(kept, key=repr)))
            numeric = False
        else:
            # (a keyword or delimiter can never be an element: even the
            # tolerant rule only covers the value directly after '=')
            raise Reject("expected a value, found %s" % (k,))
        if self.kind() == BADUNITS:
            raise Reject("units delimiter inside a units expression")
        if self.kind() == UNITS:
            if self.config in ("ODL", "PDS3") and not numeric:
                raise Reject("units after a non-number")
            u = self.tok().text[1:-1].strip()
            self.i += 1
            v = ("Quantity", v, ("str", u))
        return v

    def collection(self, o, c):
        self.i += 1
        elems = []
        if self.kind() == c:
            self.i += 1
            return elems
        while True:
            elems.append(self.value(in_collection=True))
            k = self.kind()
            if k == c:
                self.i += 1
                return elems
            if k == COMMA:
                self.i += 1
                continue
            if k is None:
                raise Reject("collection left open at end of text")
            raise Reject("expected ',' or closer, found %s" % k)

    def block(self):
        bk = self.kind()
        self.i += 1
        if self.kind() != EQ:
            raise Reject("begin keyword not followed by '='")
        self.i += 1
        if self.kind() != NAME:
            if self.kind() in (KWVAL, DATE):
                raise Abstain("keyword or date as a block name")
            raise Reject("block name expected")
        name = self.tok().text
        self.i += 1
        if self.kind() == SEMI:
            self.i += 1
        body = self.statements(top=False)
        ek = self.kind()
        want = END_G if bk == BEGIN_G else END_O
        if ek != want:
            raise Reject("end keyword does not pair with begin keyword")
        self.i += 1
        if self.kind() == EQ:
            self.i += 1
            if self.kind() != NAME:
                if self.kind() in (KWVAL, DATE):
                    raise Abstain("keyword or date as an end name")
                raise Reject("block name expected after end keyword '='")
            if self.tok().text != name:
                raise Reject("end name differs from block name")
            self.i += 1
        if self.kind() == SEMI:
            self.i += 1
        if not body:
            raise Abstain("empty block")
        return (name, ("PVLGroup" if bk == BEGIN_G else "PVLObject",
                       tuple(body)))


def recognise(toks, config, value_of):
    r = Recogniser(toks, config, value_of)
    try:
        tree = r.module()
        return ("ACCEPT", tree, r.n_empty)
    except Reject as e:
        return ("REJECT", str(e), 0)
    except Abstain as e:
        return ("ABSTAIN", str(e), 0)
