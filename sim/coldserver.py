"""Cold reference for C16: a pristine interpreter that has imported pvl but
never called it.  For every request line (JSON) it forks; the child runs
the call on a fresh instance and prints the JSON result; the parent stays
pristine.  Started lazily, one per worker process.

  request : {"kind": "...", "call": {...}}
  response: JSON list (the result descriptor of sim.props.c16.describe)
"""
import json
import os
import sys

HERE = os.path.dirname(os.path.abspath(__file__))
sys.path.insert(0, os.path.dirname(HERE))


def main():
    from sim import core  # noqa: F401  imports pvl, calls nothing
    from sim.props import c16
    out = sys.stdout
    for line in sys.stdin:
        line = line.strip()
        if not line:
            continue
        r, w = os.pipe()
        pid = os.fork()
        if pid == 0:
            os.close(r)
            try:
                req = json.loads(line)
                res = c16.fresh_result(req["kind"], req["call"])
                data = json.dumps(core.listify(res), default=str)
            except BaseException as e:  # noqa: BLE001
                data = json.dumps(["cold-error", repr(e)])
            with os.fdopen(w, "w") as f:
                f.write(data)
            os._exit(0)
        os.close(w)
        with os.fdopen(r) as f:
            data = f.read()
        os.waitpid(pid, 0)
        out.write(data + "\n")
        out.flush()


if __name__ == "__main__":
    main()
