"""Restart reference for C11: a separate interpreter started with another
PYTHONHASHSEED.  A container pickled in the simulating process is loaded
here ("only the serialised state survives the restart"), its canonical form
is reported back, and it is pickled again for the way home.

  request : "<protocol> <hex of pickle>\n"
  response: JSON {"canon": [...], "pickle": "<hex>"} or {"error": "..."}
"""
import json
import os
import pickle
import sys

HERE = os.path.dirname(os.path.abspath(__file__))
sys.path.insert(0, os.path.dirname(HERE))


def main():
    from sim import core
    for line in sys.stdin:
        line = line.strip()
        if not line:
            continue
        try:
            proto, hx = line.split(" ", 1)
            obj = pickle.loads(bytes.fromhex(hx))
            res = {"canon": core.listify(core.canon(obj)),
                   "pickle": pickle.dumps(obj, int(proto)).hex()}
        except BaseException as e:  # noqa: BLE001
            res = {"error": "%s: %s" % (type(e).__name__, e)}
        sys.stdout.write(json.dumps(res) + "\n")
        sys.stdout.flush()


if __name__ == "__main__":
    main()
