#!/venv/bin/python
"""Command line of the simulator.

  run.py setup
  run.py check <ID> --tier quick|thorough [--runs N] [--no-shrink]
  run.py replay <file>
  run.py selftest determinism [<ID> ...]

Exit codes: 0 property held on everything explored; 1 violation (a line
``VIOLATION property=<id> replay=<path>`` was printed); 2 harness error
(never to be read as a verdict).
"""
import argparse
import array
import faulthandler
import importlib
import json
import os
import shutil
import signal
import subprocess
import sys
import tempfile
import time
import traceback

HERE = os.path.dirname(os.path.abspath(__file__))
VERIF = os.path.dirname(HERE)
if VERIF not in sys.path:
    sys.path.insert(0, VERIF)

PY = sys.executable
NCPU = os.cpu_count() or 4

PROPS = {
    "C05": "sim.props.c05", "C06": "sim.props.c06", "C08": "sim.props.c08",
    "C09": "sim.props.c09", "C10": "sim.props.c10", "C11": "sim.props.c11",
    "C13": "sim.props.c13", "C15": "sim.props.c15", "C16": "sim.props.c16",
    "C20": "sim.props.c20",
}

CLASSES = {"quick": 4, "thorough": 8}
WALL_CAP = {"quick": 3600, "thorough": 8 * 3600}
MAX_SHRINK_GROUPS = 12
SHRINK_SECONDS = 40
VIOL_PER_CHUNK = 40


def load_prop(pid):
    mod = importlib.import_module(PROPS[pid])
    return mod.PROP


def master_seed():
    try:
        return int(os.environ.get("VERIF_SEED", "0"))
    except ValueError:
        return 0


def hash_seed_for(master, k):
    from sim.core import run_seed
    return run_seed("hashseed", master, k) % 4294967295 + 1


# --------------------------------------------------------------------------
# worker side

def _run_chunk(args):
    pid, master, tier, indices = args
    faulthandler.dump_traceback_later(1800, exit=True)
    from sim import core
    prop = load_prop(pid)
    out = {"runs": 0, "evals": 0, "steps0": core.METER.total,
           "digests": [], "stats": {}, "violations": [], "nviol": 0,
           "samples": [], "alldigests": []}
    for i in indices:
        rng = core.make_rng(pid, master, i)
        try:
            r = prop.run(rng, i, tier)
        except BaseException:   # a bug in the harness, never a verdict
            core.METER.end()
            out["harness_errors"] = out.get("harness_errors", 0) + 1
            out.setdefault("harness_tb", "run %d: %s" % (
                i, traceback.format_exc()[-3000:]))
            out["runs"] += 1
            continue
        out["runs"] += 1
        out["evals"] += r.evals
        dc, df = r.log.digests()
        if r.nontrivial:
            out["digests"].append(dc)
        if os.environ.get("VERIF_KEEP_DIGESTS"):
            out["alldigests"].append((i, dc, df))
        for k, v in r.stats.items():
            out["stats"][k] = out["stats"].get(k, 0) + v
        for v in r.violations:
            out["nviol"] += 1
            if len(out["violations"]) < VIOL_PER_CHUNK:
                d = v.to_json()
                d["index"] = i
                out["violations"].append(d)
        if r.sample is not None and len(out["samples"]) < 2:
            out["samples"].append(r.sample)
    out["steps"] = core.METER.total - out.pop("steps0")
    faulthandler.cancel_dump_traceback_later()
    return out


def worker_main(a):
    """One hash-seed class: runs indices i with i % K == k."""
    from concurrent.futures import ProcessPoolExecutor
    import multiprocessing as mp
    from sim import core  # noqa: F401  (import before fork)
    prop = load_prop(a.prop)
    idx = list(range(a.klass, a.runs, a.K))
    chunk = max(1, prop.CHUNK)
    chunks = [idx[j:j + chunk] for j in range(0, len(idx), chunk)]
    merged = {"runs": 0, "evals": 0, "steps": 0, "stats": {},
              "violations": [], "nviol": 0, "samples": [],
              "alldigests": [], "harness_errors": 0, "harness_tb": None}
    digests = array.array("Q")
    master = master_seed()
    if a.procs <= 1:
        results = map(_run_chunk,
                      [(a.prop, master, a.tier, c) for c in chunks])
        pool = None
    else:
        pool = ProcessPoolExecutor(max_workers=a.procs,
                                   mp_context=mp.get_context("fork"))
        results = pool.map(_run_chunk,
                           [(a.prop, master, a.tier, c) for c in chunks])
    for r in results:
        merged["runs"] += r["runs"]
        merged["evals"] += r["evals"]
        merged["steps"] += r["steps"]
        merged["nviol"] += r["nviol"]
        merged["harness_errors"] += r.get("harness_errors", 0)
        if r.get("harness_tb") and not merged["harness_tb"]:
            merged["harness_tb"] = r["harness_tb"]
        digests.extend(r["digests"])
        merged["alldigests"].extend(r["alldigests"])
        for k, v in r["stats"].items():
            merged["stats"][k] = merged["stats"].get(k, 0) + v
        if len(merged["violations"]) < 400:
            merged["violations"].extend(r["violations"])
        if len(merged["samples"]) < 3:
            merged["samples"].extend(r["samples"])
    if pool is not None:
        pool.shutdown()
    merged["hashseed"] = int(os.environ.get("PYTHONHASHSEED", "0"))
    with open(a.out + ".dig", "wb") as f:
        digests.tofile(f)
    with open(a.out, "w") as f:
        json.dump(merged, f)
    return 0


# --------------------------------------------------------------------------
# known findings

def load_known():
    p = os.path.join(VERIF, "known_findings.json")
    if not os.path.exists(p):
        return {"open": [], "fixed": []}
    with open(p) as f:
        return json.load(f)


def match_known(known, pid, signature):
    for e in known.get("open", []):
        if e["property"] == pid and e["signature"] == signature:
            return e
    return None


# --------------------------------------------------------------------------
# shrinking

def shrink(prop, case, cls, known, deadline):
    """Greedy reduction keeping the same violation class and never sliding
    into an open known finding."""
    def still(c):
        try:
            vs = prop.execute(c)
        except BaseException:
            return None
        for v in vs:
            if v.cls == cls:
                return v
        return None

    cur = case
    curv = still(cur)
    if curv is None:
        return None, None
    start_known = match_known(known, prop.ID, prop.signature(cur, curv))
    progress = True
    while progress and time.time() < deadline:
        progress = False
        for cand in prop.reductions(cur):
            if time.time() >= deadline:
                break
            v = still(cand)
            if v is None:
                continue
            if start_known is None and match_known(
                    known, prop.ID, prop.signature(cand, v)) is not None:
                continue
            cur, curv = cand, v
            progress = True
            break
    return cur, curv


# --------------------------------------------------------------------------
# parent side

def check_main(a):
    t0 = time.time()
    from sim import core
    prop = load_prop(a.prop)
    tier = a.tier
    master = master_seed()
    runs = a.runs if a.runs else prop.RUNS[tier]
    K = CLASSES[tier]
    if runs < K:
        K = 1
    ncpu = int(os.environ.get("VERIF_PROCS", NCPU))
    procs = max(1, ncpu // K)
    shift = int(os.environ.get("VERIF_HASH_SHIFT", "0"))
    quiet = bool(os.environ.get("VERIF_NO_EVIDENCE"))
    print("verif: property=%s tier=%s VERIF_SEED=%d runs=%d classes=%d "
          "procs/class=%d repo=%s" % (prop.ID, tier, master, runs, K, procs,
                                      core.REPO), flush=True)
    scratch = tempfile.mkdtemp(prefix="verif-%s-" % prop.ID)
    children = []
    try:
        for k in range(K):
            env = dict(os.environ)
            env["PYTHONHASHSEED"] = str(hash_seed_for(master, k + 100 * shift))
            out = os.path.join(scratch, "class%d.json" % k)
            cmd = [PY, "-B", os.path.abspath(__file__), "_worker", prop.ID,
                   "--tier", tier, "--klass", str(k), "--K", str(K),
                   "--runs", str(runs), "--procs", str(procs), "--out", out]
            children.append((k, out, subprocess.Popen(
                cmd, env=env, start_new_session=True)))
        cap = WALL_CAP[tier]
        results = []
        harness_error = None
        for k, out, p in children:
            try:
                rc = p.wait(timeout=max(1, cap - (time.time() - t0)))
            except subprocess.TimeoutExpired:
                harness_error = "class %d exceeded the wall cap" % k
                break
            if rc != 0 or not os.path.exists(out):
                harness_error = "class %d worker failed rc=%s" % (k, rc)
                break
            with open(out) as f:
                r = json.load(f)
            d = array.array("Q")
            with open(out + ".dig", "rb") as f:
                d.frombytes(f.read())
            r["_digests"] = d
            results.append(r)
        if harness_error:
            print("HARNESS-ERROR: %s" % harness_error, flush=True)
            return 2
    finally:
        for _, _, p in children:
            try:    # the whole process group: class worker and its pool
                os.killpg(p.pid, signal.SIGKILL)
            except (ProcessLookupError, PermissionError):
                pass
        shutil.rmtree(scratch, ignore_errors=True)

    # ---- merge
    tot = {"runs": 0, "evals": 0, "steps": 0, "nviol": 0}
    stats = {}
    samples = []
    viols = []
    alld = array.array("Q")
    alldig = []
    for r in results:
        for k in tot:
            tot[k] += r[k]
        for k, v in r["stats"].items():
            stats[k] = stats.get(k, 0) + v
        samples.extend(r["samples"])
        for v in r["violations"]:
            v["hashseed"] = r["hashseed"]
            viols.append(v)
        alld.extend(r["_digests"])
        alldig.extend(r["alldigests"])
    distinct = len(set(alld))
    herr = sum(r.get("harness_errors", 0) for r in results)
    if herr:
        tb = [r["harness_tb"] for r in results if r.get("harness_tb")][0]
        print(tb, flush=True)
        print("HARNESS-ERROR: %d runs raised inside the harness" % herr,
              flush=True)
        return 2
    if tot["runs"] != runs:
        print("HARNESS-ERROR: runs_done=%d runs_planned=%d" %
              (tot["runs"], runs), flush=True)
        return 2

    # ---- violations: group, shrink, match known findings, report
    known = load_known()
    viols.sort(key=lambda v: (v["index"], v["raw_sig"]))
    groups = {}
    for v in viols:
        groups.setdefault(v["raw_sig"], []).append(v)
    replay_dir = os.environ.get("VERIF_REPLAY_DIR",
                                os.path.join(VERIF, "replays"))
    os.makedirs(replay_dir, exist_ok=True)
    reported = 0
    known_hit = {}
    lines = []
    deadline_all = time.time() + (0 if a.no_shrink else 300)
    for gi, (raw, vs) in enumerate(sorted(groups.items(),
                                          key=lambda kv: kv[1][0]["index"])):
        v0 = vs[0]
        viol = core.Violation.from_json(v0)
        case, sig = v0["case"], None
        mv = viol
        if gi < MAX_SHRINK_GROUPS and time.time() < deadline_all:
            sc, sv = shrink(prop, case, viol.cls, known,
                            min(deadline_all, time.time() + SHRINK_SECONDS))
            if sc is not None:
                case, mv = sc, sv
        try:
            sig = prop.signature(case, mv)
        except Exception:
            sig = raw
        e = match_known(known, prop.ID, sig)
        if e is not None:
            known_hit[sig] = known_hit.get(sig, 0) + len(vs)
            continue
        reported += 1
        fn = "%s-%s-%d.json" % (prop.ID, "".join(
            c if c.isalnum() else "_" for c in sig)[:60], v0["index"])
        path = os.path.join(replay_dir, fn)
        with open(path, "w") as f:
            json.dump({"property": prop.ID, "hashseed": v0["hashseed"],
                       "VERIF_SEED": master, "run_index": v0["index"],
                       "signature": sig, "violation": mv.to_json(),
                       "case": case, "occurrences_in_batch": len(vs),
                       "original_case": v0["case"]}, f, indent=1,
                      default=str)
        lines.append("VIOLATION property=%s replay=%s" % (prop.ID, path))
        print("  class=%s signature=%s detail=%s" %
              (mv.cls, sig, str(mv.detail)[:300]), flush=True)
    for e in known.get("open", []):
        if e["property"] == prop.ID:
            print("KNOWN-FINDING: property=%s %s [signature %s; hit %d "
                  "times in this batch]" %
                  (prop.ID, e["what"], e["signature"],
                   known_hit.get(e["signature"], 0)), flush=True)
    for ln in lines:
        print(ln, flush=True)

    # ---- probes
    missing = [p for p in prop.REQUIRED_PROBES if stats.get(p, 0) == 0]
    if missing:
        print("WARNING: probes at zero: %s" % ", ".join(missing), flush=True)

    # ---- evidence
    wall = time.time() - t0
    ev = {
        "property_id": prop.ID, "tier": tier, "seed": master,
        "level": prop.LEVEL,
        "coverage": {
            "evaluations": tot["evals"],
            "distinct_nontrivial": distinct,
            "rule": prop.RULE,
            "samples": samples[:4],
            "exhaustive": False,
            "runs_planned": runs, "runs_done": tot["runs"],
            "runs_per_hour": int(tot["runs"] / max(wall, 1e-9) * 3600),
            "logical_steps": {"pvl_line_events": tot["steps"]},
            "simulated_time": None,
            "simulated_time_reason": "pvl reads no clock and has no timers; "
                                     "progress is measured in line events, "
                                     "channel events and operations",
            "fault_counts": {k[6:]: v for k, v in sorted(stats.items())
                             if k.startswith("fault.")},
            "probes": {k[6:]: v for k, v in sorted(stats.items())
                       if k.startswith("probe.")},
            "outcomes": {k: v for k, v in sorted(stats.items())
                         if not k.startswith(("fault.", "probe."))},
            "probes_at_zero": missing,
            "hash_seed_classes": [r["hashseed"] for r in results],
            "components_real": prop.COMPONENTS_REAL,
            "components_stub": prop.COMPONENTS_STUB,
            "known_findings_hit": known_hit,
            "violations_raw": tot["nviol"],
        },
        "assumptions": prop.ASSUMPTIONS,
        "wall_s": round(wall, 2),
        "violations": reported,
    }
    if not quiet:
        os.makedirs(os.path.join(VERIF, "evidence"), exist_ok=True)
        with open(os.path.join(VERIF, "evidence", "%s.json" % prop.ID),
                  "w") as f:
            json.dump(ev, f, indent=1, default=str)
    if os.environ.get("VERIF_KEEP_DIGESTS"):
        alldig.sort()
        with open(os.environ["VERIF_KEEP_DIGESTS"], "w") as f:
            json.dump(alldig, f)
    print("verif: %s %s runs=%d evals=%d distinct_nontrivial=%d "
          "violations=%d known_hits=%d wall=%.1fs" %
          (prop.ID, tier, tot["runs"], tot["evals"], distinct, reported,
           sum(known_hit.values()), wall), flush=True)
    return 1 if reported else 0


def replay_main(a):
    with open(a.file) as f:
        rp = json.load(f)
    want = str(rp.get("hashseed", 0))
    if os.environ.get("PYTHONHASHSEED") != want:
        env = dict(os.environ)
        env["PYTHONHASHSEED"] = want
        return subprocess.call([PY, "-B", os.path.abspath(__file__),
                                "replay", a.file], env=env)
    from sim import core
    prop = load_prop(rp["property"])
    vs = prop.execute(rp["case"])
    cls = rp["violation"]["cls"]
    hit = [v for v in vs if v.cls == cls]
    if hit:
        print("  class=%s detail=%s" % (hit[0].cls, str(hit[0].detail)[:500]))
        print("VIOLATION property=%s replay=%s" %
              (rp["property"], os.path.abspath(a.file)))
        return 1
    print("replay: %s no longer reproduces (%d other violations)" %
          (cls, len(vs)))
    return 0


def setup_main(a):
    assert sys.version_info >= (3, 12), "needs sys.monitoring (3.12)"
    from sim import core
    import pvl
    print("setup ok: python %s pvl %s from %s" %
          (sys.version.split()[0], pvl.__version__, core.REPO))
    return 0


def selftest_main(a):
    from sim import selftest
    return selftest.main(a)


def main(argv=None):
    ap = argparse.ArgumentParser()
    sub = ap.add_subparsers(dest="cmd", required=True)
    sub.add_parser("setup")
    c = sub.add_parser("check")
    c.add_argument("prop")
    c.add_argument("--tier", default=os.environ.get("VERIF_TIER", "quick"),
                   choices=["quick", "thorough"])
    c.add_argument("--runs", type=int, default=0)
    c.add_argument("--no-shrink", action="store_true")
    w = sub.add_parser("_worker")
    w.add_argument("prop")
    w.add_argument("--tier")
    w.add_argument("--klass", type=int)
    w.add_argument("--K", type=int)
    w.add_argument("--runs", type=int)
    w.add_argument("--procs", type=int)
    w.add_argument("--out")
    r = sub.add_parser("replay")
    r.add_argument("file")
    s = sub.add_parser("selftest")
    s.add_argument("what", choices=["determinism", "sensitivity"])
    s.add_argument("props", nargs="*")
    s.add_argument("--runs", type=int, default=0)
    a = ap.parse_args(argv)
    try:
        if a.cmd == "setup":
            return setup_main(a)
        if a.cmd == "check":
            return check_main(a)
        if a.cmd == "_worker":
            return worker_main(a)
        if a.cmd == "replay":
            return replay_main(a)
        if a.cmd == "selftest":
            return selftest_main(a)
    except SystemExit:
        raise
    except BaseException:
        traceback.print_exc()
        print("HARNESS-ERROR: exception in harness", flush=True)
        return 2
    return 2


if __name__ == "__main__":
    sys.exit(main())
