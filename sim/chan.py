"""SimLexer - the token-channel interposer (seam S1, DESIGN section 1).

``make_lexer_fn(plan, stats)`` returns a function with the signature of
``pvl.lexer.lexer`` that can be handed to any parser through the public
``lexer_fn`` parameter.  It wraps the *real* lexer, forwards the parser's
three verbs faithfully (a pushed-back token is ``send``-ed on into the real
lexer, which re-delivers it; a ``throw`` is forwarded so that the real
ValueError -> LexerError conversion still happens), numbers what passes, and
can damage the stream in flight:

  {"kind": "drop", "at": k}            token k never arrives
  {"kind": "dup", "at": k}             token k arrives twice
  {"kind": "swap", "at": k}            tokens k and k+1 arrive swapped
  {"kind": "replace", "at": k, "text": s}
  {"kind": "eof", "at": k}             the stream ends before token k
  {"kind": "abort", "at": k}           SimAbort is raised before token k

k counts fresh non-comment tokens produced by the real lexer, from 0.
"""
from collections import deque

from . import core
from pvl.lexer import lexer as real_lexer
from pvl.token import Token

REDELIVERY_LIMIT = 5000


class ChanStats:
    __slots__ = ("fresh", "fresh_noncomment", "sends", "throws",
                 "redeliveries", "max_pushback_run", "fresh_after_end",
                 "end_seen", "fired", "texts", "keep_texts", "eof_in")

    def __init__(self, keep_texts=False):
        self.fresh = 0
        self.fresh_noncomment = 0
        self.sends = 0
        self.throws = 0
        self.redeliveries = 0
        self.max_pushback_run = 0
        self.fresh_after_end = 0
        self.end_seen = False
        self.fired = []
        self.texts = [] if keep_texts else None
        self.keep_texts = keep_texts
        self.eof_in = None


def make_lexer_fn(plan=None, stats=None):
    plan = plan or []
    by_at = {}
    for f in plan:
        by_at.setdefault(f["at"], []).append(f)
    st = stats if stats is not None else ChanStats()

    def sim_lexer(s, g=None, d=None):
        inner = real_lexer(s, g=g, d=d)
        inner_done = False
        queue = deque()     # tokens ready for delivery (after faults)
        k = 0               # index of the next fresh non-comment token

        def pull():
            """Next fresh token from the real lexer or None at its end."""
            nonlocal inner_done
            if inner_done:
                return None
            try:
                t = next(inner)
            except StopIteration:
                inner_done = True
                return None
            st.fresh += 1
            if st.end_seen:
                st.fresh_after_end += 1
            return t

        def fill():
            """Pull one fresh token, apply faults, append to the queue.
            Returns False at the (real or injected) end of stream."""
            nonlocal k, inner_done
            while True:
                t = pull()
                if t is None:
                    return False
                if t.is_comment():
                    queue.append(t)
                    return True
                idx = k
                k += 1
                st.fresh_noncomment += 1
                if st.texts is not None:
                    st.texts.append(str(t))
                if t.is_end_statement():
                    st.end_seen = True
                acts = by_at.get(idx, ())
                deliver = [t]
                for f in acts:
                    kind = f["kind"]
                    if kind == "eof":
                        st.fired.append(("eof", idx))
                        inner_done = True
                        inner.close()
                        return False
                    if kind == "abort":
                        st.fired.append(("abort", idx))
                        raise core.SimAbort("token %d" % idx)
                    if kind == "drop":
                        st.fired.append(("drop", idx))
                        deliver = []
                    elif kind == "dup":
                        st.fired.append(("dup", idx))
                        deliver = deliver + deliver[-1:]
                    elif kind == "replace":
                        st.fired.append(("replace", idx))
                        deliver = [Token(f["text"], grammar=g, decoder=d,
                                         pos=t.pos)]
                    elif kind == "swap":
                        nxt = pull()
                        while nxt is not None and nxt.is_comment():
                            deliver.append(nxt)
                            nxt = pull()
                        if nxt is not None:
                            k += 1
                            st.fresh_noncomment += 1
                            if st.texts is not None:
                                st.texts.append(str(nxt))
                            st.fired.append(("swap", idx))
                            deliver = [nxt] + deliver
                if deliver:
                    queue.extend(deliver)
                    return True
                # dropped: look for the next one

        run = 0     # consecutive re-deliveries since the last fresh token
        while True:
            if not queue and not fill():
                return
            tok = queue.popleft()
            run = 0
            try:
                sent = yield tok
                while sent is not None:
                    # the parser pushed a token back
                    st.sends += 1
                    if not inner_done:
                        try:
                            inner.send(sent)
                            yield None
                            back = next(inner)
                        except StopIteration:
                            inner_done = True
                            back = sent
                    else:
                        yield None
                        back = sent
                    st.redeliveries += 1
                    run += 1
                    if run > st.max_pushback_run:
                        st.max_pushback_run = run
                    if run > REDELIVERY_LIMIT:
                        raise core.SimStall("channel: %d re-deliveries of "
                                            "%r without a fresh token" %
                                            (run, str(back)))
                    sent = yield back
            except ValueError as e:
                # the parser threw into the channel: let the real lexer turn
                # it into a LexerError with its position arithmetic
                if isinstance(e, core.LexerError):
                    raise
                st.throws += 1
                if inner_done:
                    raise
                inner.throw(e)
                raise   # not reached: inner.throw raises LexerError

    return sim_lexer
